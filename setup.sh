#!/bin/bash
# offline tool-chain check; nothing is fetched or compiled
set -e
cd "$(dirname "$0")"
python3-vt -c "import z3, sympy, numpy, six; print('z3', z3.get_version_string(), 'sympy', sympy.__version__, 'numpy', numpy.__version__)"
/usr/bin/cvc5 --version | head -1
PYTHONPATH=/repo python3-vt -c "import xfab.tools, xfab.laue, xfab.symmetry, xfab.detector, xfab.structure, xfab.sg, xfab.parameters; print('xfab importable')"
/venv/bin/python -c "import xfab; print('venv xfab ok')"
mkdir -p evidence replays
echo setup ok
