"""Specification vocabulary shared by the contracts.  Every function works on symbolic values
(proof) and on floats (native replay, engine validation) -- one text, two back ends."""
import math
from fractions import Fraction

from pyvc import terms as T
from pyvc import npmodel as NPM
from pyvc.terms import Eq, conj, And, Or, Not, Implies


def symbolic_mode():
    return T._CTX[0] is not None


def PI():
    return T.pi() if symbolic_mode() else math.pi


def cosd(x):
    return T.cos(x * PI() / 180)


def sind(x):
    return T.sin(x * PI() / 180)


def mat(rows):
    return [list(r) for r in rows]


def entries(M):
    """3x3 -> list of rows, from SArr / numpy / nested lists"""
    if isinstance(M, NPM.SArr):
        return M.tolist()
    if hasattr(M, 'tolist'):
        return M.tolist()
    return [list(r) for r in M]


def mm(A, B):
    A, B = entries(A), entries(B)
    n, m, p = len(A), len(B), len(B[0])
    out = []
    for i in range(n):
        row = []
        for j in range(p):
            acc = 0
            for k in range(m):
                acc = acc + A[i][k] * B[k][j]
            row.append(acc)
        out.append(row)
    if symbolic_mode() and getattr(T.ctx(), 'let_products', True):
        from pyvc import lets as _lets
        out = [[_lets.let('mm', x) for x in row] for row in out]
    return out


def mv(A, v):
    A = entries(A)
    v = list(v.flat) if isinstance(v, NPM.SArr) else list(v)
    out = []
    for i in range(len(A)):
        acc = 0
        for k in range(len(v)):
            acc = acc + A[i][k] * v[k]
        out.append(acc)
    return out


def tr(A):
    A = entries(A)
    return [[A[j][i] for j in range(len(A))] for i in range(len(A[0]))]


def smul(s, A):
    return [[s * x for x in row] for row in entries(A)]


def madd(A, B, sign=1):
    A, B = entries(A), entries(B)
    return [[a + sign * b for a, b in zip(ra, rb)] for ra, rb in zip(A, B)]


I3 = [[1, 0, 0], [0, 1, 0], [0, 0, 1]]


def named(name, x):
    """give a (matrix of) symbolic value(s) a name of its own: a fresh symbol with the defining hypothesis"""
    if not symbolic_mode():
        return x
    from pyvc import lets as _lets
    if isinstance(x, list):
        return [named('%s_%d' % (name, i), v) for i, v in enumerate(x)]
    if isinstance(x, (T.R,)):
        return _lets.let(name, x, force=True)
    return x


def det3(M):
    (a, b, c), (d, e, f), (g, h, i) = entries(M)
    return a * (e * i - f * h) - b * (d * i - f * g) + c * (d * h - e * g)


def cof3(M):
    """cofactor matrix (== M for a proper rotation)"""
    (a, b, c), (d, e, f), (g, h, i) = entries(M)
    return [[e * i - f * h, f * g - d * i, d * h - e * g],
            [c * h - b * i, a * i - c * g, b * g - a * h],
            [b * f - c * e, c * d - a * f, a * e - b * d]]


def mat_eq(A, B, tol=None):
    A, B = entries(A), entries(B)
    return conj(*[Eq(a, b, tol) for ra, rb in zip(A, B) for a, b in zip(ra, rb)])


def vec_eq(a, b, tol=None):
    a = list(a.flat) if isinstance(a, NPM.SArr) else list(a)
    b = list(b.flat) if isinstance(b, NPM.SArr) else list(b)
    assert len(a) == len(b), (len(a), len(b))
    return conj(*[Eq(x, y, tol) for x, y in zip(a, b)])


def named_mat_eq(name, A, B, tol=None):
    """yield one clause per entry so that obligations are named by entry"""
    A, B = entries(A), entries(B)
    for i, (ra, rb) in enumerate(zip(A, B)):
        for j, (a, b) in enumerate(zip(ra, rb)):
            yield '%s[%d,%d]' % (name, i, j), Eq(a, b, tol)


# ---------------------------------------------------------------------------
# cells

def gram_D(c):
    ca, cb, cg = cosd(c[3]), cosd(c[4]), cosd(c[5])
    return 1 - ca * ca - cb * cb - cg * cg + 2 * ca * cb * cg


def quadrant_deg(x):
    """trig axiom (trusted): 0 < x < 180 degrees  =>  sin > 0; cos within [-1, 1]"""
    if symbolic_mode():
        s = sind(x)
        return conj(Implies(And(x > 0, x < 180), s > 0),
                    Implies(And(x >= 0, x <= 180), s >= 0))
    return True


def valid_cell(c):
    return conj(c[0] > 0, c[1] > 0, c[2] > 0,
                c[3] > 0, c[3] < 180, c[4] > 0, c[4] < 180, c[5] > 0, c[5] < 180,
                sind(c[3]) > 0, sind(c[4]) > 0, sind(c[5]) > 0,      # quadrant axiom, see DESIGN 3.2
                gram_D(c) > 0)


def G(c):
    """direct metric tensor of the cell"""
    a, b, cc = c[0], c[1], c[2]
    ca, cb, cg = cosd(c[3]), cosd(c[4]), cosd(c[5])
    return [[a * a, a * b * cg, a * cc * cb],
            [a * b * cg, b * b, b * cc * ca],
            [a * cc * cb, b * cc * ca, cc * cc]]


def Vspec(c):
    """cell volume a b c sqrt(D)"""
    return c[0] * c[1] * c[2] * T.sqrt(gram_D(c))


def Aspec(c):
    a, b, cc = c[0], c[1], c[2]
    ca, cb, cg = cosd(c[3]), cosd(c[4]), cosd(c[5])
    sb, sg = sind(c[4]), sind(c[5])
    V = Vspec(c)
    return [[a, b * cg, cc * cb],
            [0, b * sg, -cc * sb * ((cb * cg - ca) / (sb * sg))],
            [0, 0, cc * sb * (V / (a * b * cc * sb * sg))]]


def Bspec(c, K):
    a, b, cc = c[0], c[1], c[2]
    ca, cb, cg = cosd(c[3]), cosd(c[4]), cosd(c[5])
    sa, sb, sg = sind(c[3]), sind(c[4]), sind(c[5])
    V = Vspec(c)
    astar = K * b * cc * sa / V
    bstar = K * a * cc * sb / V
    cstar = K * a * b * sg / V
    sbetstar = V / (a * b * cc * sa * sg)
    sgamstar = V / (a * b * cc * sa * sb)
    cbetstar = (ca * cg - cb) / (sa * sg)
    cgamstar = (ca * cb - cg) / (sa * sb)
    return [[astar, bstar * cgamstar, cstar * cbetstar],
            [0, bstar * sgamstar, -cstar * sbetstar * ca],
            [0, 0, cstar * sbetstar * sa]]


def principal_angle_deg(stem, C, S, by_construction=False):
    """the angle in [0, 180] degrees with cos = C and sin = S >= 0 (closed-form atoms)"""
    if not symbolic_mode():
        return math.degrees(math.atan2(S, C))
    c = T.ctx()
    nm = c.fresh(stem)
    c.oblige('principal_angle_sin_nonneg(%s)' % stem, T.lift(S) >= 0)
    th = T.angle_cs(nm, C, S, base=(Fraction(1, 180), 1), by_construction=by_construction)
    c.assume(And(th >= 0, th <= 180), hyp=False)     # trig axiom: existence of the principal angle
    c.assume(conj(Implies(Eq(T.lift(S), 0), Or(Eq(th, 0), Eq(th, 180))),
                  Implies(T.lift(S) > 0, And(th > 0, th < 180))), hyp=False)
    c.notes.append('trig axiom: principal angle in [0,pi] for (C,S) on the unit circle with S>=0')
    return th


def reciprocal_lengths(c):
    """a*, b*, c* in closed form"""
    a, b, cc = c[0], c[1], c[2]
    sa, sb, sg = sind(c[3]), sind(c[4]), sind(c[5])
    V = Vspec(c)
    return [b * cc * sa / V, a * cc * sb / V, a * b * sg / V]


def cell_invert_spec(c):
    """reciprocal cell in closed form"""
    a, b, cc = c[0], c[1], c[2]
    ca, cb, cg = cosd(c[3]), cosd(c[4]), cosd(c[5])
    sa, sb, sg = sind(c[3]), sind(c[4]), sind(c[5])
    V = Vspec(c)
    abc = a * b * cc
    return [b * cc * sa / V, a * cc * sb / V, a * b * sg / V,
            principal_angle_deg('alstar', (cb * cg - ca) / (sb * sg), V / (abc * sb * sg)),
            principal_angle_deg('bestar', (ca * cg - cb) / (sa * sg), V / (abc * sa * sg)),
            principal_angle_deg('gastar', (ca * cb - cg) / (sa * sb), V / (abc * sa * sb))]


def cell_sqrt_hints(c):
    """closed forms for the square roots met when a cell is rebuilt from its own A/B matrix or
    from its reciprocal cell (each use is certified by the engine before it is adopted)"""
    a, b, cc = c[0], c[1], c[2]
    sa, sb, sg = sind(c[3]), sind(c[4]), sind(c[5])
    V = Vspec(c)
    abc = a * b * cc
    D = gram_D(c)
    return [a, b, cc, sa, sb, sg,
            b * cc * sa / V, a * cc * sb / V, a * b * sg / V,
            V / (abc * sb * sg), V / (abc * sa * sg), V / (abc * sa * sb),
            D / (sa * sb * sg), 1 / V, V, abc * sa * sb * sg / V]


def a_to_cell_spec(A):
    g = mm(tr(A), A)
    a, b, cc = T.sqrt(g[0][0]), T.sqrt(g[1][1]), T.sqrt(g[2][2])
    def ang(stem, x):
        return principal_angle_deg(stem, x, T.acos_sin(x), by_construction=True)
    return [a, b, cc, ang('al', g[1][2] / b / cc), ang('be', g[0][2] / a / cc), ang('ga', g[0][1] / a / b)]


def upper_pos(M):
    M = entries(M)
    return conj(Eq(M[1][0], 0), Eq(M[2][0], 0), Eq(M[2][1], 0), M[0][0] > 0, M[1][1] > 0, M[2][2] > 0)


# ---------------------------------------------------------------------------
# rotations

def Rx(x):
    c, s = T.cos(x), T.sin(x)
    return [[1, 0, 0], [0, c, -s], [0, s, c]]


def Ry(x):
    c, s = T.cos(x), T.sin(x)
    return [[c, 0, s], [0, 1, 0], [-s, 0, c]]


def Rz(x):
    c, s = T.cos(x), T.sin(x)
    return [[c, -s, 0], [s, c, 0], [0, 0, 1]]


def is_rotation_min(U, tol=None):
    """U^T U = I and det U = 1  (the definition)"""
    UtU = mm(tr(U), U)
    return conj(*([Eq(UtU[i][j], 1 if i == j else 0, tol) for i in range(3) for j in range(i, 3)]
                  + [Eq(det3(U), 1, tol)]))


def is_rotation(U, tol=None):
    """the definition plus its consequences U U^T = I and U = cof(U); the consequences are
    lemmas (contracts/lemmas.py: rotation_redundant) so that assuming them is no extra demand"""
    UUt = mm(U, tr(U))
    Ue, C = entries(U), cof3(U)
    return conj(is_rotation_min(U, tol),
                *([Eq(UUt[i][j], 1 if i == j else 0, tol) for i in range(3) for j in range(i, 3)]
                  + [Eq(Ue[i][j], C[i][j], tol) for i in range(3) for j in range(3)]))


# ---------------------------------------------------------------------------
# trig axioms that are instantiated explicitly (trusted, DESIGN 3.2)

def axiom_cos_injective_deg(x, y):
    """cos is injective on [0, 180] degrees"""
    c = T.ctx()
    c.assume(Implies(And(x >= 0, x <= 180, y >= 0, y <= 180, Eq(cosd(x), cosd(y))), Eq(x, y)), hyp=False)
    c.notes.append('trig axiom: cos injective on [0,pi]')


def axiom_sin_pos_deg(x):
    """0 < x < 180 => sin x > 0 ; sin x = 0 on [0,180] only at the ends"""
    c = T.ctx()
    c.assume(Implies(And(x > 0, x < 180), sind(x) > 0), hyp=False)
    c.assume(Implies(And(x >= 0, x <= 180, sind(x) > 0), And(x > 0, x < 180)), hyp=False)
    c.notes.append('trig axiom: sin > 0 on (0,pi)')
