"""Contracts for xfab.checks (C20)."""
import math

from pyvc import terms as T
from pyvc import npmodel as NPM
from pyvc.engine import Contract, register, Real, Angle, Vec, Mat, Rot, Const, Int, random_rotation
from pyvc.terms import Eq, conj, And, Or, Not, Implies
from .specs import *

EPS_VALID = T.Fraction(1, 10 ** 7)        # a clearly valid input is within 1e-7 of a proper rotation
EPS_INVALID = T.Fraction(1, 10 ** 3)      # a clearly invalid one is off by at least 1e-3


def madd(A, B_):
    A, B_ = entries(A), entries(B_)
    return [[A[i][j] + B_[i][j] for j in range(3)] for i in range(3)]


def absle(x, b):
    return conj(x <= b, x >= -b)


class SmallMat(Mat):
    def __init__(self, eps):
        Mat.__init__(self, 3, 3, Real(-eps, eps))


@register('checks')
class CheckRotationValid(Contract):
    """ghost parameters R (a proper rotation) and E (|E_ij| <= 1e-7): a clearly valid matrix U = R + E
    (this covers float32-rounded rotations) is never rejected"""
    name = '_check_rotation_matrix'
    key = '_check_rotation_matrix#never_rejects_valid'
    signature = [('R', Rot()), ('E', SmallMat(1e-7))]
    let_abstraction = False

    def requires(self, R, Em):
        yield 'R_is_rotation', is_rotation(R)
        Re = entries(R)
        # consequence of orthonormal rows (|R_ij| <= 1), stated to keep the product bounds linear
        yield 'R_entries_bounded', conj(*[absle(Re[i][j], 1) for i in range(3) for j in range(3)])
        yield 'E_small', conj(*[absle(entries(Em)[i][j], EPS_VALID) for i in range(3) for j in range(3)])

    def lemmas(self, R, Em):
        # interval bounds of the monomials of (R+E)'(R+E) - I and det(R+E) - det R that contain an entry of E:
        # each is a small non-linear fact; with them the two allclose tests are linear arithmetic over monomials
        import itertools
        Re, Ee = entries(R), entries(Em)
        seen = set()

        def lem(tag, term, bound):
            if tag in seen:
                return None
            seen.add(tag)
            return ('bound_' + tag, absle(term, bound))
        for k_ in range(3):
            for i in range(3):
                for j in range(3):
                    out = lem('R%d%d_E%d%d' % (k_, i, k_, j), Re[k_][i] * Ee[k_][j], EPS_VALID)
                    if out:
                        yield out
                    if i <= j:
                        out = lem('E%d%d_E%d%d' % (k_, i, k_, j), Ee[k_][i] * Ee[k_][j], EPS_VALID * EPS_VALID)
                        if out:
                            yield out
        # pair products of entries in different rows and columns (the 2x2 minors' monomials), then the triples
        for perm in itertools.permutations(range(3)):
            for mask in itertools.product((0, 1), repeat=3):
                if not any(mask):
                    continue
                f = [(Ee if mask[i] else Re)[i][perm[i]] for i in range(3)]
                tags = ['%s%d%d' % ('E' if mask[i] else 'R', i, perm[i]) for i in range(3)]
                b01 = (EPS_VALID if mask[0] else 1) * (EPS_VALID if mask[1] else 1)
                out = lem('_'.join(tags[:2]), f[0] * f[1], b01)
                if out:
                    yield out
                out = lem('_'.join(tags), f[0] * f[1] * f[2], b01 * (EPS_VALID if mask[2] else 1))
                if out:
                    yield out

    def actuals(self, R, Em):
        U = madd(R, Em)
        if symbolic_mode():
            return [NPM.array(U)]
        import numpy as np
        return [np.array(U, float)]

    def raises(self, R, Em):
        return ()            # no exception is allowed: any raise path is a violation

    def ensures(self, R, Em, res):
        yield 'returns_None', res is None


def gram_dev(U):
    UtU = mm(tr(U), U)
    return [UtU[i][j] - (1 if i == j else 0) for i in range(3) for j in range(3)]


def clearly_invalid_rot(U):
    devs = gram_dev(U) + [det3(U) - 1]
    return Or(*[Or(d >= EPS_INVALID, d <= -EPS_INVALID) for d in devs])


def perturbed_sampler(rng):
    R = random_rotation(rng)
    i, j = rng.randrange(3), rng.randrange(3)
    R[i][j] += rng.choice([-1, 1]) * rng.uniform(2e-3, 1.0)
    return R


@register('checks')
class CheckRotationInvalid(Contract):
    name = '_check_rotation_matrix'
    key = '_check_rotation_matrix#rejects_invalid'
    signature = [('U', Mat(3, 3, Real(-2, 2), perturbed_sampler))]
    let_abstraction = False

    def requires(self, U):
        yield 'clearly_invalid', clearly_invalid_rot(U)

    def raises(self, U):
        yield 'not_a_rotation', ValueError, True


TWO_PI_PLUS = 2 * math.pi


@register('checks')
class CheckEuler(Contract):
    name = '_check_euler_angles'
    signature = [('phi1', Real(-1, 8, special=(0.0, TWO_PI_PLUS, -1e-9))), ('PHI', Real(-1, 8, special=(0.0,))),
                 ('phi2', Real(-1, 8, special=(0.0, 7.0)))]
    let_abstraction = False

    def outside(self, *a):
        return Or(*[Or(x < 0, x > 2 * PI()) for x in a])

    def raises(self, p1, P, p2):
        yield 'angle_outside_0_2pi', ValueError, self.outside(p1, P, p2)

    def ensures(self, p1, P, p2, res):
        yield 'only_for_angles_in_range', Not(self.outside(p1, P, p2))


@register('checks')
class CheckUbi(Contract):
    name = '_check_ubi_matrix'
    signature = [('ubi', Mat(3, 3, Real(-5, 5)))]
    let_abstraction = False

    def left_handed(self, ubi):
        return det3(ubi) < 0

    def raises(self, ubi):
        yield 'left_handed', ValueError, self.left_handed(ubi)

    def ensures(self, ubi, res):
        yield 'only_for_right_handed_or_degenerate', Not(self.left_handed(ubi))
