"""Contracts of the functions that exist in both xfab.tools and xfab.laue.
Each contract is registered twice; `self.K()` is 2*pi in tools and 1 in laue."""
import math

from pyvc import terms as T
from pyvc import npmodel as NPM
from pyvc.engine import Contract, register, Real, Angle, Vec, Mat, Rot, Cell, Const, Int
from pyvc.terms import Eq, conj, And, Or, Not, Implies
from .specs import *

BOTH = ('tools', 'laue')


def fresh_cell(prefix, native):
    """a fresh symbolic cell whose numeric value is native(env)[i]"""
    names = ['a', 'b', 'c', 'al', 'be', 'ga']
    out = []
    for i, k in enumerate(names):
        nd = (lambda env, i=i: float(native(env)[i]))
        if i < 3:
            out.append(T.real('%s_%s' % (prefix, k), numdef=nd))
        else:
            out.append(T.angle('%s_%s' % (prefix, k), base=(T.Fraction(1, 180), 1), numdef=nd))
    return out


def num_args(args):
    """closure evaluating symbolic call-site arguments on an env (for numeric defs of fresh results)"""
    def ev(x, env):
        if isinstance(x, (T.R, T.I)):
            return T.numeval(x.z, env)
        if isinstance(x, NPM.SArr):
            import numpy as np
            return np.array([ev(v, env) for v in x.flat], float).reshape(x.shape)
        if isinstance(x, (list, tuple)):
            return [ev(v, env) for v in x]
        if isinstance(x, T.Fraction):
            return float(x)
        return x
    return lambda env: [ev(a, env) for a in args]


def native_fn(module, name):
    import importlib
    return getattr(importlib.import_module('xfab.' + module), name)


# ---------------------------------------------------------------------------
# C01

@register(*BOTH)
class CellVolume(Contract):
    name = 'cell_volume'
    signature = [('unit_cell', Cell())]

    def requires(self, c):
        yield 'valid_cell', valid_cell(c)

    def result_spec(self, c):
        return Vspec(c)

    def ensures(self, c, V):
        yield 'positive', V > 0
        yield 'square', Eq(V * V, c[0] * c[0] * c[1] * c[1] * c[2] * c[2] * gram_D(c))
        yield 'equals_spec', Eq(V, Vspec(c))


@register(*BOTH)
class FormAMat(Contract):
    name = 'form_a_mat'
    signature = [('unit_cell', Cell())]

    def requires(self, c):
        yield 'valid_cell', valid_cell(c)

    def result_spec(self, c):
        return NPM.array(Aspec(c))

    def ensures(self, c, A):
        A = entries(A)
        yield 'upper_pos', upper_pos(A)
        yield from named_mat_eq('metric', mm(tr(A), A), G(c))            # A'A = G      (C01)
        yield 'det_is_volume', Eq(det3(A), Vspec(c))                    # det A = V    (C01)
        yield from named_mat_eq('equals_spec', A, Aspec(c))


@register(*BOTH)
class FormBMat(Contract):
    name = 'form_b_mat'
    signature = [('unit_cell', Cell())]

    def requires(self, c):
        yield 'valid_cell', valid_cell(c)

    def result_spec(self, c):
        # at call sites the entries of B get names of their own (definitions are unfolded only where a proof needs them)
        return NPM.array(named('Bm', Bspec(c, self.K() if symbolic_mode() else self.Knum())))

    def ensures(self, c, Bm):
        K = self.K() if symbolic_mode() else self.Knum()
        Bm = entries(Bm)
        yield 'upper_pos', upper_pos(Bm)
        # B'B is the reciprocal metric tensor times K^2:  (B'B).G = K^2.I          (C01)
        yield from named_mat_eq('recip_metric', mm(mm(tr(Bm), Bm), G(c)), smul(K * K, I3))
        yield from named_mat_eq('equals_spec', Bm, Bspec(c, K))


@register(*BOTH)
class FormAMatInv(Contract):
    name = 'form_a_mat_inv'
    signature = [('unit_cell', Cell())]

    def requires(self, c):
        yield 'valid_cell', valid_cell(c)

    def result_spec(self, c):
        return NPM.inv(NPM.array(Aspec(c)))

    def ensures(self, c, Ai):
        yield from named_mat_eq('left_inverse', mm(Ai, Aspec(c)), I3)
        yield from named_mat_eq('right_inverse', mm(Aspec(c), Ai), I3)


@register(*BOTH)
class Sintl(Contract):
    name = 'sintl'
    signature = [('unit_cell', Cell()), ('hkl', Vec(3, Real(-8, 8), as_list=True))]

    def requires(self, c, hkl):
        yield 'valid_cell', valid_cell(c)

    def fresh_result(self, site, c, hkl):
        # one symbol per (cell, hkl): two call sites with the same arguments denote the same value
        cx = T.ctx()
        key = ('sintl_result', self.module, tuple(str(T.lift(x).z) for x in list(c) + list(hkl)))
        if key not in cx.memo:
            na = num_args([c, hkl])
            f = native_fn(self.module, 'sintl')
            cx.memo[key] = T.real(site + '_stl', numdef=lambda env: float(f(*na(env))))
        return cx.memo[key]

    def ensures(self, c, hkl, stl):
        K = self.K() if symbolic_mode() else self.Knum()
        g = mv(Bspec(c, K), hkl)
        yield 'nonneg', stl >= 0
        # sin(theta)/lambda = |B.hkl| / (2K)   (|B.hkl|/2 in laue, /4pi in tools)        (C01)
        yield 'is_half_length', Eq(4 * K * K * stl * stl, g[0] * g[0] + g[1] * g[1] + g[2] * g[2])


@register(*BOTH)
class AToCell(Contract):
    name = 'a_to_cell'
    signature = [('A_matrix', Mat(3, 3, Real(-5, 5)))]

    def requires(self, A):
        g = mm(tr(A), A)
        yield 'nondegenerate_columns', conj(g[0][0] > 0, g[1][1] > 0, g[2][2] > 0)

    def sign_hints(self, A):
        # Cauchy-Schwarz in closed form: 1 - (ai.aj)^2/(|ai|^2 |aj|^2) = |ai x aj|^2 / (|ai|^2 |aj|^2)
        Ae = entries(A)
        cols = [[Ae[r][k] for r in range(3)] for k in range(3)]
        g = mm(tr(A), A)
        out = []
        for i, j in ((1, 2), (0, 2), (0, 1)):
            u, v = cols[i], cols[j]
            cr = [u[1] * v[2] - u[2] * v[1], u[2] * v[0] - u[0] * v[2], u[0] * v[1] - u[1] * v[0]]
            out.append((cr[0] * cr[0] + cr[1] * cr[1] + cr[2] * cr[2]) / (g[i][i] * g[j][j]))
        return out

    def fresh_result(self, site, A):
        na = num_args([A])
        f = native_fn(self.module, 'a_to_cell')
        return fresh_cell(site, lambda env: f(*na(env)))

    def ensures(self, A, c):
        g = mm(tr(A), A)
        yield 'lengths_positive', conj(c[0] > 0, c[1] > 0, c[2] > 0)
        yield 'angle_range', conj(c[3] >= 0, c[3] <= 180, c[4] >= 0, c[4] <= 180, c[5] >= 0, c[5] <= 180)
        yield 'sines_nonneg', conj(sind(c[3]) >= 0, sind(c[4]) >= 0, sind(c[5]) >= 0)
        Gc = G(c)
        for i in range(3):
            for j in range(i, 3):                                        # G(result) = A'A  (both symmetric)
                yield 'metric[%d,%d]' % (i, j), Eq(Gc[i][j], g[i][j])


@register(*BOTH)
class CellInvert(Contract):
    name = 'cell_invert'
    signature = [('unit_cell', Cell())]

    def requires(self, c):
        yield 'valid_cell', valid_cell(c)

    def result_spec(self, c):
        return cell_invert_spec(c)

    def sqrt_hints(self, c):
        return cell_sqrt_hints(c)

    def sign_hints(self, c):
        sa, sb, sg = sind(c[3]), sind(c[4]), sind(c[5])
        D = gram_D(c)
        # 1 - cos^2(alpha*) = D / (sin beta sin gamma)^2  etc.
        return [D / (sb * sb * sg * sg), D / (sa * sa * sg * sg), D / (sa * sa * sb * sb)]

    def ensures(self, c, cs):
        a, b, cc = c[0], c[1], c[2]
        ca, cb, cg = cosd(c[3]), cosd(c[4]), cosd(c[5])
        sa, sb, sg = sind(c[3]), sind(c[4]), sind(c[5])
        V = Vspec(c)
        abc = a * b * cc
        D = gram_D(c)
        yield 'astar', Eq(cs[0] * V, b * cc * sa)
        yield 'bstar', Eq(cs[1] * V, a * cc * sb)
        yield 'cstar', Eq(cs[2] * V, a * b * sg)
        yield 'cos_alphastar', Eq(cosd(cs[3]) * sb * sg, cb * cg - ca)
        yield 'cos_betastar', Eq(cosd(cs[4]) * sa * sg, ca * cg - cb)
        yield 'cos_gammastar', Eq(cosd(cs[5]) * sa * sb, ca * cb - cg)
        # helper (cut): sin^2 of the reciprocal angles in closed form, then their sign
        yield 'sinsq_alphastar', Eq(sind(cs[3]) * sind(cs[3]) * sb * sb * sg * sg, D)
        yield 'sinsq_betastar', Eq(sind(cs[4]) * sind(cs[4]) * sa * sa * sg * sg, D)
        yield 'sinsq_gammastar', Eq(sind(cs[5]) * sind(cs[5]) * sa * sa * sb * sb, D)
        yield 'sines_nonneg', conj(sind(cs[3]) >= 0, sind(cs[4]) >= 0, sind(cs[5]) >= 0)
        yield 'sines_positive', conj(sind(cs[3]) > 0, sind(cs[4]) > 0, sind(cs[5]) > 0)
        yield 'sin_alphastar', Eq(sind(cs[3]) * abc * sb * sg, V)
        yield 'sin_betastar', Eq(sind(cs[4]) * abc * sa * sg, V)
        yield 'sin_gammastar', Eq(sind(cs[5]) * abc * sa * sb, V)
        yield 'lengths_positive', conj(cs[0] > 0, cs[1] > 0, cs[2] > 0)
        yield 'angle_range', conj(cs[3] >= 0, cs[3] <= 180, cs[4] >= 0, cs[4] <= 180, cs[5] >= 0, cs[5] <= 180)
        if symbolic_mode():
            for i in (3, 4, 5):
                axiom_sin_pos_deg(cs[i])
        yield 'angles_strict', conj(cs[3] > 0, cs[3] < 180, cs[4] > 0, cs[4] < 180, cs[5] > 0, cs[5] < 180)
        yield 'gram_star', Eq(gram_D(cs) * sa * sa * sb * sb * sg * sg, D * D)
        yield '~gram_star_positive', gram_D(cs) > 0      # runtime-checked only (nra beyond the solvers)
        yield from named_mat_eq('reciprocal_metric', mm(G(cs), G(c)), I3)       # G* . G = I   (C01)


@register(*BOTH)
class BToCell(Contract):
    """ghost parameter c0: the contract is about B matrices of valid cells (what C01 asks for):
    b_to_cell(B(c0)) == c0"""
    name = 'b_to_cell'
    signature = [('c0', Cell())]

    def requires(self, c0):
        yield 'valid_cell', valid_cell(c0)

    def actuals(self, c0):
        K = self.K() if symbolic_mode() else self.Knum()
        Bm = Bspec(c0, K)
        return [NPM.array(Bm) if symbolic_mode() else Bm]

    def sqrt_hints(self, c0):
        return cell_sqrt_hints(c0)

    def ensures(self, c0, c):
        if symbolic_mode():
            for i in (3, 4, 5):
                axiom_cos_injective_deg(c[i], c0[i])
        for i, nm in enumerate(['a', 'b', 'c']):
            yield 'returns_' + nm, Eq(c[i], c0[i])
        for i, nm in ((3, 'alpha'), (4, 'beta'), (5, 'gamma')):
            yield 'cos_' + nm, Eq(cosd(c[i]), cosd(c0[i]))
            yield 'range_' + nm, conj(c[i] >= 0, c[i] <= 180)
            yield 'returns_' + nm, Eq(c[i], c0[i])


# ---------------------------------------------------------------------------
# C03 -- rotation constructors

ANG = Angle(-7.0, 7.0, special=(0.0, math.pi / 2, math.pi, -math.pi / 2, 2 * math.pi))


def rot_clauses(name, M, spec):
    yield from named_mat_eq(name, M, spec)
    M = entries(M)
    UtU = mm(tr(M), M)
    for i in range(3):
        for j in range(i, 3):
            yield 'orthonormal[%d,%d]' % (i, j), Eq(UtU[i][j], 1 if i == j else 0)
    yield 'det_plus_one', Eq(det3(M), 1)


@register(*BOTH)
class EulerToU(Contract):
    name = 'euler_to_u'
    signature = [('phi1', ANG), ('PHI', ANG), ('phi2', ANG)]

    def result_spec(self, p1, P, p2):
        return NPM.array(mm(Rz(p1), mm(Rx(P), Rz(p2))))

    def ensures(self, p1, P, p2, U):
        # documented composition Rz(phi1) Rx(PHI) Rz(phi2), orthonormal, det +1        (C03)
        yield from rot_clauses('is_RzRxRz', U, mm(Rz(p1), mm(Rx(P), Rz(p2))))


@register(*BOTH)
class FormOmegaMat(Contract):
    name = 'form_omega_mat'
    signature = [('omega', ANG)]

    def result_spec(self, om):
        return NPM.array(Rz(om))

    def ensures(self, om, M):
        yield from rot_clauses('is_Rz', M, Rz(om))


@register(*BOTH)
class FormOmegaMatGeneral(Contract):
    name = 'form_omega_mat_general'
    signature = [('omega', ANG), ('chi', ANG), ('wedge', ANG)]

    def result_spec(self, om, chi, wedge):
        return NPM.array(mm(Rx(chi), mm(Ry(wedge), Rz(om))))

    def ensures(self, om, chi, wedge, M):
        yield from rot_clauses('is_RxRyRz', M, mm(Rx(chi), mm(Ry(wedge), Rz(om))))


@register(*BOTH)
class DetectTilt(Contract):
    name = 'detect_tilt'
    signature = [('tilt_x', ANG), ('tilt_y', ANG), ('tilt_z', ANG)]

    def result_spec(self, tx, ty, tz):
        return NPM.array(mm(Rx(tx), mm(Ry(ty), Rz(tz))))

    def ensures(self, tx, ty, tz, M):
        yield from rot_clauses('is_RxRyRz', M, mm(Rx(tx), mm(Ry(ty), Rz(tz))))


def quart_spec(w, wx, wy):
    """P Rz(omega) P' with P = Rx(wx) Ry(wy), omega = w degrees"""
    P = mm(Rx(wx), Ry(wy))
    om = w * PI() / 180
    return mm(P, mm(Rz(om), tr(P)))


@register(*BOTH)
class QuartToOmega(Contract):
    name = 'quart_to_omega'
    # w in degrees; the code forms cos/sin of w*pi/360
    signature = [('w', Angle(-400.0, 400.0, base=(T.Fraction(1, 360), 1), special=(0.0, 90.0, 180.0, -180.0, 360.0))),
                 ('w_x', ANG), ('w_y', ANG)]

    def result_spec(self, w, wx, wy):
        return NPM.array(quart_spec(w, wx, wy))

    def ensures(self, w, wx, wy, M):
        yield from rot_clauses('is_P_Rz_Pt', M, quart_spec(w, wx, wy))


def rod_active(r):
    r1, r2, r3 = r[0], r[1], r[2]
    r2n = r1 * r1 + r2 * r2 + r3 * r3
    cross = [[0, -r3, r2], [r3, 0, -r1], [-r2, r1, 0]]
    out = []
    for i in range(3):
        row = []
        for j in range(3):
            row.append(((1 - r2n) * (1 if i == j else 0) + 2 * r[i] * r[j] + 2 * cross[i][j]) / (1 + r2n))
        out.append(row)
    return out


@register(*BOTH)
class RodToU(Contract):
    name = 'rod_to_u'
    signature = [('rodriguez_vector', Vec(3, Real(-5, 5, special=(0.0, 1.0, 1e3, -1e3))))]

    def result_spec(self, r):
        rr = list(r.flat) if isinstance(r, NPM.SArr) else list(r)
        return NPM.array(tr(rod_active(rr)))

    def ensures(self, r, U):
        rr = list(r.flat) if isinstance(r, NPM.SArr) else list(r)
        # passive sense: transpose of the active right-handed rotation about r by 2*atan|r|   (C03)
        yield from rot_clauses('is_transposed_axis_angle', U, tr(rod_active(rr)))
        Ur = mv(U, rr)
        yield 'axis_is_fixed', vec_eq(Ur, rr)
        r2n = rr[0] * rr[0] + rr[1] * rr[1] + rr[2] * rr[2]
        Ue = entries(U)
        # trace = 1 + 2 cos(angle), cos(2 atan|r|) = (1-|r|^2)/(1+|r|^2)
        yield 'angle_is_2atan_norm', Eq((Ue[0][0] + Ue[1][1] + Ue[2][2]) * (1 + r2n), (1 + r2n) + 2 * (1 - r2n))
        # right-handed about r in the active sense: the antisymmetric part of U' is +[r]x * 2/(1+|r|^2)
        yield 'handedness', Eq((Ue[1][2] - Ue[2][1]) * (1 + r2n), 4 * rr[0])


# ---------------------------------------------------------------------------
# C09 -- omega / eta solvers
from pyvc.engine import UnitVec3

TWOTH = Angle(math.radians(0.5), math.radians(150.0), base=(T.Fraction(1, 2), 0))
TILT = Angle(-0.5, 0.5, special=(0.0,))
SCALE = Real(0.05, 30.0)


def vlist(v):
    return list(v.flat) if isinstance(v, NPM.SArr) else list(v)


def diffraction_clauses(i, Om, gs, twoth, om, eta):
    """the rotated scattering vector (length sin(theta)) meets the diffraction condition"""
    st = T.sin(twoth / 2)
    s2, = (T.sin(twoth),)
    gt = mv(Om, gs)
    yield 'x_component[i=%d]' % i, Eq(gt[0], -st * st)
    if eta is not None:
        yield 'y_component[i=%d]' % i, Eq(gt[1], -s2 * T.sin(eta) / 2)
        yield 'z_component[i=%d]' % i, Eq(gt[2], s2 * T.cos(eta) / 2)
    yield 'omega_range[i=%d]' % i, conj(om > -PI(), om <= PI())


class _OmegaSolver(Contract):
    """shared shape: ghost parameters gdir (unit vector) and scale; the real g_w is
    sin(theta)*gdir in tools (its assertion demands that length) and scale*gdir in laue
    (which rescales itself)"""

    def theta_ok(self, twoth):
        return conj(T.sin(twoth / 2) > 0, T.cos(twoth / 2) > 0)

    def g_actual(self, gdir, scale, twoth):
        gd = vlist(gdir)
        if self.module == 'tools':
            f = T.sin(twoth / 2)
        else:
            f = scale
        g = [f * x for x in gd]
        if symbolic_mode():
            return NPM.array(g)
        import numpy as np
        return np.array(g, float)

    def gs(self, gdir, twoth):
        return [T.sin(twoth / 2) * x for x in vlist(gdir)]

    def sqrt_hints(self, gdir, scale, twoth, *rest):
        st = T.sin(twoth / 2)
        return [1, st, scale, 2 * st, 1 / (2 * st)]


def abc_general(gs, wx, wy):
    r = mm(Rx(wx), Ry(wy))
    a = gs[0] * r[0][0] + gs[1] * r[0][1]
    b = gs[0] * r[0][1] - gs[1] * r[0][0]
    c = -(gs[0] * gs[0] + gs[1] * gs[1] + gs[2] * gs[2]) - gs[2] * r[0][2]
    return a, b, c


@register(*BOTH)
class FindOmegaGeneral(_OmegaSolver):
    name = 'find_omega_general'
    signature = [('gdir', UnitVec3()), ('scale', SCALE), ('twoth', TWOTH), ('w_x', TILT), ('w_y', TILT)]

    def requires(self, gdir, scale, twoth, wx, wy):
        gd = vlist(gdir)
        yield 'unit_direction', Eq(gd[0] * gd[0] + gd[1] * gd[1] + gd[2] * gd[2], 1)
        yield 'scale_positive', scale > 0
        yield 'theta_in_first_quadrant', self.theta_ok(twoth)
        a, b, c = abc_general(self.gs(gdir, twoth), wx, wy)
        yield 'g_not_along_rotation_axis', a * a + b * b > 0
        d = a * a + b * b - c * c
        yield 'not_tangent', Not(Eq(d, 0))

    def actuals(self, gdir, scale, twoth, wx, wy):
        return [self.g_actual(gdir, scale, twoth), twoth, wx, wy]

    def omega_matrix(self, om, wx, wy):
        return mm(Rx(wx), mm(Ry(wy), Rz(om)))

    def ensures(self, gdir, scale, twoth, wx, wy, res):
        om, eta = vlist(res[0]), vlist(res[1])
        gs = self.gs(gdir, twoth)
        a, b, c = abc_general(gs, wx, wy)
        d = a * a + b * b - c * c
        yield 'two_or_none', len(om) in (0, 2) and len(eta) == len(om)
        # complete: two solutions exactly when the reflection can reach the diffraction condition
        if len(om) == 0:
            yield 'none_only_when_unreachable', d <= 0
        else:
            yield 'two_only_when_reachable', d >= 0
        for i in range(len(om)):
            yield from diffraction_clauses(i, self.omega_matrix(om[i], wx, wy), gs, twoth, om[i], eta[i])
        if len(om) == 2:
            # the two solutions are distinct
            yield '~solutions_distinct', Not(And(Eq(T.cos(om[0]), T.cos(om[1])), Eq(T.sin(om[0]), T.sin(om[1]))))


@register(*BOTH)
class FindOmegaQuart(FindOmegaGeneral):
    name = 'find_omega_quart'

    def omega_matrix(self, om, wx, wy):
        P = mm(Rx(wx), Ry(wy))
        return mm(P, mm(Rz(om), tr(P)))

    def requires(self, gdir, scale, twoth, wx, wy):
        gd = vlist(gdir)
        yield 'unit_direction', Eq(gd[0] * gd[0] + gd[1] * gd[1] + gd[2] * gd[2], 1)
        yield 'scale_positive', scale > 0
        yield 'theta_in_first_quadrant', self.theta_ok(twoth)
        a, b, c = self.abc(self.gs(gdir, twoth), wx, wy)
        yield 'g_not_along_rotation_axis', a * a + b * b > 0
        yield 'not_tangent', Not(Eq(a * a + b * b - c * c, 0))

    def abc(self, gs, wx, wy):
        nrm = mv(mm(Rx(wx), Ry(wy)), [0, 0, 1])
        a = gs[0] * (1 - nrm[0] * nrm[0]) - gs[1] * nrm[0] * nrm[1] - gs[2] * nrm[0] * nrm[2]
        b = gs[2] * nrm[1] - gs[1] * nrm[2]
        c = -(gs[0] * gs[0] + gs[1] * gs[1] + gs[2] * gs[2]) - gs[0] * nrm[0] * nrm[0] \
            - gs[1] * nrm[0] * nrm[1] - gs[2] * nrm[0] * nrm[2]
        return a, b, c

    def ensures(self, gdir, scale, twoth, wx, wy, res):
        om, eta = vlist(res[0]), vlist(res[1])
        gs = self.gs(gdir, twoth)
        a, b, c = self.abc(gs, wx, wy)
        d = a * a + b * b - c * c
        yield 'two_or_none', len(om) in (0, 2) and len(eta) == len(om)
        # complete: two solutions exactly when the reflection can reach the diffraction condition
        if len(om) == 0:
            yield 'none_only_when_unreachable', d <= 0
        else:
            yield 'two_only_when_reachable', d >= 0
        for i in range(len(om)):
            yield from diffraction_clauses(i, self.omega_matrix(om[i], wx, wy), gs, twoth, om[i], eta[i])
        if len(om) == 2:
            yield '~solutions_distinct', Not(And(Eq(T.cos(om[0]), T.cos(om[1])), Eq(T.sin(om[0]), T.sin(om[1]))))


@register(*BOTH)
class FindOmega(_OmegaSolver):
    name = 'find_omega'
    signature = [('gdir', UnitVec3()), ('scale', SCALE), ('twoth', TWOTH)]

    def requires(self, gdir, scale, twoth):
        gd = vlist(gdir)
        yield 'unit_direction', Eq(gd[0] * gd[0] + gd[1] * gd[1] + gd[2] * gd[2], 1)
        yield 'scale_positive', scale > 0
        yield 'theta_in_first_quadrant', self.theta_ok(twoth)
        yield 'g_not_along_rotation_axis', gd[0] * gd[0] + gd[1] * gd[1] > 0
        st = T.sin(twoth / 2)
        yield 'not_tangent', Not(Eq(gd[0] * gd[0] + gd[1] * gd[1], st * st))

    def actuals(self, gdir, scale, twoth):
        return [self.g_actual(gdir, scale, twoth), twoth]

    def sqrt_hints(self, gdir, scale, twoth):
        st = T.sin(twoth / 2)
        gd = vlist(gdir)
        a, b, c = gd[0], -gd[1], -st
        d = a * a + b * b

        def s(sign_a, sign_all):
            # lazy: sqrt(d - c^2) only exists inside the branch where the code takes it
            return lambda: sign_all * (b * c + sign_a * a * T.sqrt(d - c * c)) / d
        return [1, st, scale, 2 * st, s(-1, 1), s(-1, -1), s(1, 1), s(1, -1)]

    def ensures(self, gdir, scale, twoth, res):
        om = vlist(res)
        gs = self.gs(gdir, twoth)
        gd = vlist(gdir)
        st = T.sin(twoth / 2)
        reach = gd[0] * gd[0] + gd[1] * gd[1] - st * st
        yield 'two_or_none', len(om) in (0, 2)
        if len(om) == 0:
            yield 'none_only_when_unreachable', reach <= 0
        else:
            yield 'two_only_when_reachable', reach >= 0
        for i in range(len(om)):
            yield from diffraction_clauses(i, Rz(om[i]), gs, twoth, om[i], None)


@register(*BOTH)
class FindOmegaWedge(_OmegaSolver):
    name = 'find_omega_wedge'
    signature = [('gdir', UnitVec3()), ('scale', SCALE), ('twoth', TWOTH), ('wedge', TILT)]

    def coseta_a(self, gdir, twoth, wedge):
        gd = vlist(gdir)
        ct, s2 = T.cos(twoth), T.sin(twoth)
        cf = ct - 1
        length = 2 * T.sin(twoth / 2)
        coseta = (gd[2] * length + T.sin(wedge) * cf) / T.cos(wedge) / s2
        a = T.cos(wedge) * cf + T.sin(wedge) * s2 * coseta
        return coseta, a

    def requires(self, gdir, scale, twoth, wedge):
        gd = vlist(gdir)
        yield 'unit_direction', Eq(gd[0] * gd[0] + gd[1] * gd[1] + gd[2] * gd[2], 1)
        yield 'scale_positive', scale > 0
        yield 'theta_in_first_quadrant', self.theta_ok(twoth)
        yield 'wedge_small', T.cos(wedge) > 0
        coseta, a = self.coseta_a(gdir, twoth, wedge)
        yield 'not_tangent', conj(Not(Eq(coseta, 1)), Not(Eq(coseta, -1)))
        yield 'a_nonzero', Not(Eq(a, 0))

    def actuals(self, gdir, scale, twoth, wedge):
        g = self.g_actual(gdir, scale, twoth)
        return [g, twoth, wedge]

    def special_samples(self, rng):
        """scattering vectors just inside / just outside the blind cone (|cos eta| = 1 +- delta)"""
        vals = [pt.sample(rng) for _, pt in self.signature]
        twoth, wedge = vals[2], vals[3]
        ct, s2 = math.cos(twoth), math.sin(twoth)
        length = 2 * math.sin(twoth / 2)
        coseta = rng.choice([-1, 1]) * (1 + rng.choice([-1, 1]) * rng.choice([3e-6, 1e-5, 5e-5, 9e-5, 3e-4, 1e-3]))
        gz = (coseta * math.cos(wedge) * s2 - math.sin(wedge) * (ct - 1)) / length
        if abs(gz) >= 1:
            return None
        phi = rng.uniform(0, 2 * math.pi)
        r = math.sqrt(1 - gz * gz)
        vals[0] = [r * math.cos(phi), r * math.sin(phi), gz]
        return vals


    def ensures(self, gdir, scale, twoth, wedge, res):
        om, eta = vlist(res[0]), vlist(res[1])
        gs = self.gs(gdir, twoth)
        coseta, a = self.coseta_a(gdir, twoth, wedge)
        yield 'two_or_none', len(om) in (0, 2) and len(eta) == len(om)
        if len(om) == 0:
            yield 'none_only_when_unreachable', Or(coseta > 1, coseta < -1)
        else:
            yield 'two_only_when_reachable', And(coseta <= 1, coseta >= -1)
        for i in range(len(om)):
            # GrainSpotter sign of the wedge: Omega = Ry(-wedge) Rz(omega)
            yield from diffraction_clauses(i, mm(Ry(-wedge), Rz(om[i])), gs, twoth, om[i], eta[i])


# ---------------------------------------------------------------------------
# C03 -- inverse maps u_to_rod, u_to_euler (and the local _arctan2)

@register(*BOTH)
class UToRod(Contract):
    name = 'u_to_rod'
    signature = [('U_matrix', Rot())]

    def requires(self, U):
        Ue = entries(U)
        yield 'is_rotation', is_rotation(U)
        # rotation angle not within ~1e-6 of 180 degrees: 1 + trace = 2 + 2 cos(angle) >= 1e-12
        yield 'not_half_turn', 1 + Ue[0][0] + Ue[1][1] + Ue[2][2] >= T.Fraction(1, 10 ** 12)

    def numeric_ok(self, U):
        # the Rodrigues vector is ill-conditioned near half turns (relative error 1e-16 / (1 + tr U)): numeric
        # comparisons in doubles stay away from them, the symbolic contract does not
        return 1 + U[0][0] + U[1][1] + U[2][2] >= 1e-6

    def result_spec(self, U):
        Ue = entries(U)
        t = 1 + Ue[0][0] + Ue[1][1] + Ue[2][2]
        return NPM.array([(Ue[1][2] - Ue[2][1]) / t, (Ue[2][0] - Ue[0][2]) / t, (Ue[0][1] - Ue[1][0]) / t])

    def ensures(self, U, r):
        rr = vlist(r)
        # inverts rod_to_u: the Rodrigues vector rebuilds the input matrix      (C03)
        yield from named_mat_eq('rod_to_u_of_result_is_U', tr(rod_active(rr)), U)


XY = Real(-1.5, 1.5, special=(0.0, 1e-9, -1e-9, 5e-9, 1.0, -1.0))


@register(*BOTH)
class Arctan2Local(Contract):
    """_arctan2(y, x): the polar angle of (x, y) in (-pi, pi]"""
    name = '_arctan2'
    signature = [('y', XY), ('x', XY)]

    def requires(self, y, x):
        yield 'not_origin', x * x + y * y > 0

    def result_spec(self, y, x):
        return T.arctan2(y, x)

    def sqrt_hints(self, y, x):
        rho = T.sqrt(x * x + y * y)
        return [rho / x, -rho / x, rho]

    def ensures(self, y, x, th):
        rho = T.sqrt(x * x + y * y)
        yield 'cos', Eq(T.cos(th) * rho, x)
        yield 'sin', Eq(T.sin(th) * rho, y)
        yield 'range', conj(th > -PI(), th <= PI())


@register(*BOTH)
class UToEuler(Contract):
    name = 'u_to_euler'
    signature = [('U_matrix', Rot())]

    def requires(self, U):
        yield 'is_rotation', is_rotation(U)

    def sign_hints(self, U):
        Ue = entries(U)
        r = T.acos_sin(Ue[2][2])
        return [Ue[2][0] * Ue[2][0] + Ue[2][1] * Ue[2][1], Ue[0][2] * Ue[0][2] + Ue[1][2] * Ue[1][2],
                r * r, Ue[1][2] * Ue[1][2] + Ue[2][2] * Ue[2][2], r]

    def sqrt_hints(self, U):
        Ue = entries(U)
        return [T.acos_sin(Ue[2][2]), 1]

    def ensures(self, U, ang):
        a = vlist(ang)
        Ue = entries(U)
        p1, P, p2 = a[0], a[1], a[2]
        yield 'range_phi1', conj(p1 >= 0, p1 <= 2 * PI())
        yield 'range_PHI', conj(P >= 0, P <= PI())
        yield 'range_phi2', conj(p2 >= 0, p2 <= 2 * PI())
        Rb = mm(Rz(p1), mm(Rx(P), Rz(p2)))
        if symbolic_mode():
            tol = T.Fraction(1, 10 ** 8)
            lock = Or(P < tol, P > PI() - tol)
            if not T.ctx().feasible(T._bz(lock)):
                # away from gimbal lock the angles rebuild U exactly
                yield from named_mat_eq('rebuilds_U', Rb, U)
            else:
                T.ctx().notes.append('u_to_euler: gimbal-lock paths are covered by the bounded stand-in')
        else:
            yield from named_mat_eq('rebuilds_U', Rb, U, 1e-6 / 3)


# ---------------------------------------------------------------------------
# C02 -- U, B, UBI

class GhostStub:
    """call-site stub of a contract that has ghost parameters: the caller supplies the ghosts"""

    def __init__(self, contract, *ghost):
        self.k, self.ghost = contract, ghost

    def __call__(self, *actual):
        k = self.k
        c = T.ctx()
        site = c.fresh('call_%s' % k.name)
        for nm, cond in k.call_requires(*(list(self.ghost) + list(actual))):
            c.oblige('%s.requires.%s' % (site.replace('!', '@'), nm), cond)
        c.notes.append('callee contract used (ghost-instantiated): %s' % k.qualname())
        return k.call_result(*self.ghost)


def Kof(self):
    return self.K() if symbolic_mode() else self.Knum()


def cell_invert_core(k, c, x):
    """the clauses of cell_invert's (proved) postcondition that the involution lemma rests on"""
    for nm, cond in k.ensures(c, x):
        if nm.startswith('~') or nm.startswith(('gram_star', 'reciprocal_metric', 'angles_strict')):
            continue
        yield nm, cond


class CellInvertOfReciprocal(Contract):
    """ghost c0: cell_invert(x) == c0 for every x that satisfies the postcondition of cell_invert(c0).
    Not proved from code of its own: it is the lemma `cell_invert_is_involution` (checks/C01.py) -- any x with
    ensures(c0, x), any result with ensures(x, result) => result == c0 -- composed with cell_invert's contract."""
    name = 'cell_invert'
    key = 'cell_invert#of_reciprocal'
    signature = [('c0', Cell())]

    def __init__(self, module):
        self.module = module

    def call_requires(self, c0, x):
        from pyvc.engine import REGISTRY
        x = vlist(x)
        yield from cell_invert_core(REGISTRY[(self.module, 'cell_invert')], c0, x)

    def call_result(self, c0):
        return list(c0)


def _b_to_cell_extra_ns(self, c0):
    return {'cell_invert': GhostStub(CellInvertOfReciprocal(self.module), c0)}


BToCell.extra_ns = _b_to_cell_extra_ns
BToCell.sign_hints = CellInvert.sign_hints


def ubi_spec(U, c, K):
    """UBI = K (U B)^-1"""
    if symbolic_mode():
        # B through form_b_mat's (proved) contract: named entries with upper_pos known
        from pyvc.engine import REGISTRY, CallStub
        module = 'laue' if T.is_num(K) else 'tools'
        Bn = entries(CallStub(None, REGISTRY[(module, 'form_b_mat')])(c))
    else:
        Bn = Bspec(c, K)
    UB = mm(U, Bn)
    if symbolic_mode():
        inv = NPM.inv(NPM.array(UB))
        return [[K * x for x in row] for row in inv.tolist()]
    import numpy as np
    return (K * np.linalg.inv(np.array(UB, float))).tolist()


@register(*BOTH)
class UToUbi(Contract):
    name = 'u_to_ubi'
    signature = [('U_matrix', Rot()), ('unit_cell', Cell())]

    def requires(self, U, c):
        yield 'is_rotation', is_rotation(U)
        yield 'valid_cell', valid_cell(c)

    def sign_hints(self, U, c):
        Bm = Bspec(c, Kof(self))

        def lazy():
            Bn = named('Bm', Bspec(c, Kof(self)))
            return det3(U) * Bn[0][0] * Bn[1][1] * Bn[2][2]
        return [lazy, Bm[0][0] * Bm[1][1] * Bm[2][2],
                det3(U) * Bm[0][0] * Bm[1][1] * Bm[2][2]]

    def result_spec(self, U, c):
        return NPM.array(ubi_spec(U, c, Kof(self)))

    def ensures(self, U, c, ubi):
        K = Kof(self)
        UB = mm(U, named('Bm', Bspec(c, K)))
        # the rows of UBI are the real-space lattice vectors: UBI.(U.B.hkl) = K.hkl for every hkl      (C02)
        yield from named_mat_eq('ubi_times_UB_is_K_identity', mm(ubi, UB), smul(K, I3))
        yield from named_mat_eq('UB_times_ubi_is_K_identity', mm(UB, ubi), smul(K, I3))


@register(*BOTH)
class UbiToCellRoundtrip(Contract):
    """ghosts U0, c0: the UBI of a rotation and a valid cell gives back the cell"""
    name = 'ubi_to_cell'
    key = 'ubi_to_cell#of_u_to_ubi'
    signature = [('U0', Rot()), ('c0', Cell())]

    def requires(self, U0, c0):
        yield 'is_rotation', is_rotation(U0)
        yield 'valid_cell', valid_cell(c0)

    def actuals(self, U0, c0):
        m = ubi_spec(U0, c0, Kof(self))
        if symbolic_mode():
            return [NPM.array(m)]
        import numpy as np
        return [np.array(m, float)]

    def sign_hints(self, U0, c0):
        Bm = Bspec(c0, Kof(self))

        def lazy():
            Bn = named('Bm', Bspec(c0, Kof(self)))        # evaluated when used: re-uses the names the code introduced
            return det3(U0) * Bn[0][0] * Bn[1][1] * Bn[2][2]
        return [lazy, Bm[0][0] * Bm[1][1] * Bm[2][2],
                det3(U0) * Bm[0][0] * Bm[1][1] * Bm[2][2], c0[0] * c0[0], c0[1] * c0[1], c0[2] * c0[2]]

    def call_requires(self, U0, c0, ubi):
        yield from named_mat_eq('ubi_is_K_inverse_UB', ubi, ubi_spec(U0, c0, Kof(self)))

    def call_result(self, U0, c0):
        return NPM.array(list(c0)) if False else list(c0)

    def ensures(self, U0, c0, c):
        c = vlist(c)
        if symbolic_mode():
            for i in (3, 4, 5):
                axiom_cos_injective_deg(c[i], c0[i])
        # helper (cut): the metric of the result is the metric of c0 ...
        ubi = ubi_spec(U0, c0, Kof(self))
        yield from named_mat_eq('ubi_ubiT_is_metric_of_c0', mm(ubi, tr(ubi)), G(c0))
        # ... lengths, then cosines, then angles (cos is injective on [0,180])
        for i, nm in enumerate(['a', 'b', 'c']):
            yield 'returns_' + nm, Eq(c[i], c0[i])
        for i, nm in ((3, 'alpha'), (4, 'beta'), (5, 'gamma')):
            yield 'cos_' + nm, Eq(cosd(c[i]), cosd(c0[i]))
            yield 'returns_' + nm, Eq(c[i], c0[i])


@register(*BOTH)
class UbiToURoundtrip(Contract):
    """ghosts U0, c0: ubi_to_u(u_to_ubi(U0, c0)) == U0"""
    name = 'ubi_to_u'
    key = 'ubi_to_u#of_u_to_ubi'
    signature = [('U0', Rot()), ('c0', Cell())]
    requires = UbiToCellRoundtrip.requires
    actuals = UbiToCellRoundtrip.actuals
    sign_hints = UbiToCellRoundtrip.sign_hints

    def extra_ns(self, U0, c0):
        from pyvc.engine import REGISTRY
        return {'ubi_to_cell': GhostStub(REGISTRY[(self.module, 'ubi_to_cell#of_u_to_ubi')], U0, c0)}

    def call_requires(self, U0, c0, ubi):
        yield from named_mat_eq('ubi_is_K_inverse_UB', ubi, ubi_spec(U0, c0, Kof(self)))

    def call_result(self, U0, c0):
        return NPM.array(entries(U0))

    def ensures(self, U0, c0, U):
        yield from named_mat_eq('returns_U', U, U0)


@register(*BOTH)
class UbiToRodRoundtrip(Contract):
    name = 'ubi_to_rod'
    key = 'ubi_to_rod#of_u_to_ubi'
    signature = [('U0', Rot()), ('c0', Cell())]
    actuals = UbiToCellRoundtrip.actuals
    sign_hints = UbiToCellRoundtrip.sign_hints

    def requires(self, U0, c0):
        yield 'is_rotation', is_rotation(U0)
        yield 'valid_cell', valid_cell(c0)
        Ue = entries(U0)
        yield 'not_half_turn', 1 + Ue[0][0] + Ue[1][1] + Ue[2][2] >= T.Fraction(1, 10 ** 12)

    def numeric_ok(self, U0, c0):
        return 1 + U0[0][0] + U0[1][1] + U0[2][2] >= 1e-6          # conditioning of the Rodrigues vector, see u_to_rod

    def extra_ns(self, U0, c0):
        from pyvc.engine import REGISTRY
        return {'ubi_to_u': GhostStub(REGISTRY[(self.module, 'ubi_to_u#of_u_to_ubi')], U0, c0)}

    def ensures(self, U0, c0, r):
        rr = vlist(r)
        yield from named_mat_eq('rod_to_u_of_result_is_U', tr(rod_active(rr)), U0)


def det_pos_sampler(rng):
    import numpy as np
    while True:
        M = np.array([[rng.uniform(-3, 3) for _ in range(3)] for _ in range(3)])
        if np.linalg.det(M) > 0.2 and np.linalg.cond(M) < 1e3:
            return M.tolist()


@register(*BOTH)
class UbToUB(Contract):
    name = 'ub_to_u_b'
    signature = [('UB_matrix', Mat(3, 3, Real(-3, 3), det_pos_sampler))]
    let_abstraction = False

    def requires(self, M):
        yield 'positive_determinant', det3(M) > 0

    def ensures(self, M, res):
        U, Bm = res[0], res[1]
        yield from named_mat_eq('product_is_UB', mm(U, Bm), M)
        UtU = mm(tr(U), U)
        for i in range(3):
            for j in range(i, 3):
                yield 'U_orthonormal[%d,%d]' % (i, j), Eq(UtU[i][j], 1 if i == j else 0)
        Be = entries(Bm)
        yield 'B_upper_triangular', conj(Eq(Be[1][0], 0), Eq(Be[2][0], 0), Eq(Be[2][1], 0))
        yield 'B_positive_diagonal', conj(Be[0][0] > 0, Be[1][1] > 0, Be[2][2] > 0)
        # helper (cut): det U * det B = det M, det B > 0, det U in {+1,-1}
        yield 'det_product', Eq(det3(U) * Be[0][0] * Be[1][1] * Be[2][2], det3(M))
        g = named('gram', UtU)
        d = named('detU', det3(U))
        p = named('detB', Be[0][0] * Be[1][1] * Be[2][2])
        yield 'det_of_gram_is_one', Eq(det3(g), 1)
        yield 'det_U_squared_is_det_of_gram', Eq(det3(U) * det3(U), det3(UtU))        # Binet: a polynomial identity
        yield 'det_U_squared', Eq(d * d, 1)
        yield 'det_B_positive', p > 0
        yield 'det_product_named', Eq(d * p, det3(M))
        yield 'det_U_is_plus_one', Eq(d, 1)
        yield 'U_proper', Eq(det3(U), 1)


@register(*BOTH)
class UbiToCell(Contract):
    """general contract: the cell whose metric tensor is UBI.UBI' (the rows of UBI are the lattice vectors)"""
    name = 'ubi_to_cell'
    signature = [('ubi_matrix', Mat(3, 3, Real(-6, 6)))]

    def requires(self, ubi):
        g = mm(ubi, tr(ubi))
        yield 'nondegenerate_rows', conj(g[0][0] > 0, g[1][1] > 0, g[2][2] > 0)

    def ensures(self, ubi, c):
        c = vlist(c)
        g = mm(ubi, tr(ubi))
        Gc = G(c)
        yield 'lengths_positive', conj(c[0] > 0, c[1] > 0, c[2] > 0)
        yield 'angle_range', conj(c[3] >= 0, c[3] <= 180, c[4] >= 0, c[4] <= 180, c[5] >= 0, c[5] <= 180)
        for i in range(3):
            for j in range(i, 3):
                yield 'metric_is_ubi_ubiT[%d,%d]' % (i, j), Eq(Gc[i][j], g[i][j])


# ---------------------------------------------------------------------------
# C13 -- strain <-> B

EPS = Vec(6, Real(-0.1, 0.1, special=(0.0,)), as_list=True)


def Bn_of(self, c):
    """B of the unstrained cell through form_b_mat's contract (named entries)"""
    if symbolic_mode():
        from pyvc.engine import REGISTRY, CallStub
        return entries(CallStub(None, REGISTRY[(self.module, 'form_b_mat')])(c))
    return Bspec(c, self.Knum())


def inv_upper(Bm):
    """inverse of an upper-triangular matrix in closed form"""
    b = entries(Bm)
    i00, i11, i22 = 1 / b[0][0], 1 / b[1][1], 1 / b[2][2]
    i01 = -b[0][1] * i00 * i11
    i12 = -b[1][2] * i11 * i22
    i02 = (b[0][1] * b[1][2] - b[0][2] * b[1][1]) * i00 * i11 * i22
    return [[i00, i01, i02], [0, i11, i12], [0, 0, i22]]


def strain_spec(Bm, B0):
    """[e11, e12, e13, e22, e23, e33] of sym(B0 . B^-1) - I   (B upper triangular)"""
    Tm = mm(B0, inv_upper(Bm))
    e = [[(Tm[i][j] + Tm[j][i]) / 2 - (1 if i == j else 0) for j in range(3)] for i in range(3)]
    return [e[0][0], e[0][1], e[0][2], e[1][1], e[1][2], e[2][2]]


def eps_small(eps):
    return conj(*[conj(e >= T.Fraction(-1, 10), e <= T.Fraction(1, 10)) for e in eps])


@register(*BOTH)
class EpsilonToB(Contract):
    name = 'epsilon_to_b'
    signature = [('epsilon', EPS), ('unit_cell', Cell())]

    def requires(self, eps, c):
        yield 'valid_cell', valid_cell(c)
        yield 'strain_components_at_most_0.1', eps_small(eps)

    def sign_hints(self, eps, c):
        return [lambda: (lambda B0: (eps[0] + 1) * (eps[3] + 1) * (eps[5] + 1) / (B0[0][0] * B0[1][1] * B0[2][2]))(
            named('Bm', Bspec(c, Kof(self))))]

    def ensures(self, eps, c, Bm):
        B0 = Bn_of(self, c)
        Be = entries(Bm)
        yield 'upper_triangular', conj(Eq(Be[1][0], 0), Eq(Be[2][0], 0), Eq(Be[2][1], 0))
        yield 'diag_00', Eq(Be[0][0] * (eps[0] + 1), B0[0][0])
        yield 'diag_11', Eq(Be[1][1] * (eps[3] + 1), B0[1][1])
        yield 'diag_22', Eq(Be[2][2] * (eps[5] + 1), B0[2][2])
        yield 'positive_diagonal', conj(Be[0][0] > 0, Be[1][1] > 0, Be[2][2] > 0)
        # b_to_epsilon inverts it: the strain of the result w.r.t. the unstrained cell is epsilon      (C13)
        st = strain_spec(Be, B0)
        for i, nm in enumerate(['e11', 'e12', 'e13', 'e22', 'e23', 'e33']):
            yield 'strain_of_result_is_' + nm, Eq(st[i], eps[i])


@register(*BOTH)
class EpsilonToBZero(Contract):
    name = 'epsilon_to_b'
    key = 'epsilon_to_b#zero_strain'
    signature = [('unit_cell', Cell())]

    def requires(self, c):
        yield 'valid_cell', valid_cell(c)

    def actuals(self, c):
        return [[0, 0, 0, 0, 0, 0], c]

    def ensures(self, c, Bm):
        yield from named_mat_eq('zero_strain_gives_unstrained_B', Bm, Bn_of(self, c))


class UpperPos(Mat):
    def __init__(self):
        Mat.__init__(self, 3, 3, Real(-1, 1))

    def sym(self, name):
        ent = []
        for i in range(3):
            for j in range(3):
                ent.append(T.real('%s_%d%d' % (name, i, j)) if j >= i else 0)
        return NPM.SArr((3, 3), ent)

    def sample(self, rng):
        return [[(rng.uniform(0.1, 1.0) if i == j else rng.uniform(-0.3, 0.3)) if j >= i else 0.0 for j in range(3)] for i in range(3)]

    def env(self, name, value, env):
        for i in range(3):
            for j in range(i, 3):
                env['%s_%d%d' % (name, i, j)] = float(value[i][j])


@register(*BOTH)
class BToEpsilon(Contract):
    name = 'b_to_epsilon'
    signature = [('B_matrix', UpperPos()), ('unit_cell', Cell())]

    def requires(self, Bm, c):
        Be = entries(Bm)
        yield 'valid_cell', valid_cell(c)
        yield 'positive_diagonal', conj(Be[0][0] > 0, Be[1][1] > 0, Be[2][2] > 0)

    def sign_hints(self, Bm, c):
        Be = entries(Bm)
        return [Be[0][0] * Be[1][1] * Be[2][2]]

    def ensures(self, Bm, c, eps):
        # the strain returned for a B matrix is sym(B0 . inv(B)) - I      (C13)
        st = strain_spec(entries(Bm), Bn_of(self, c))
        for i, nm in enumerate(['e11', 'e12', 'e13', 'e22', 'e23', 'e33']):
            yield 'is_sym_B0_Binv_minus_I_' + nm, Eq(eps[i], st[i])


@register(*BOTH)
class EpsilonToBOfStrain(Contract):
    """ghost B (upper triangular, positive diagonal): epsilon_to_b(b_to_epsilon(B)) == B"""
    name = 'epsilon_to_b'
    key = 'epsilon_to_b#of_b_to_epsilon'
    signature = [('Bg', UpperPos()), ('unit_cell', Cell())]

    def requires(self, Bg, c):
        Be = entries(Bg)
        yield 'valid_cell', valid_cell(c)
        yield 'positive_diagonal', conj(Be[0][0] > 0, Be[1][1] > 0, Be[2][2] > 0)

    def actuals(self, Bg, c):
        return [strain_spec(entries(Bg), Bn_of(self, c)), c]

    def sign_hints(self, Bg, c):
        Be = entries(Bg)
        return [lambda: (lambda B0: 1 / (Be[0][0] * Be[1][1] * Be[2][2]))(None),
                Be[0][0] * Be[1][1] * Be[2][2]]

    def ensures(self, Bg, c, Bm):
        yield from named_mat_eq('returns_B', Bm, Bg)
