"""Contracts of the functions that exist in both xfab.tools and xfab.laue.
Each contract is registered twice; `self.K()` is 2*pi in tools and 1 in laue."""
import math

from pyvc import terms as T
from pyvc import npmodel as NPM
from pyvc.engine import Contract, register, Real, Angle, Vec, Mat, Rot, Cell, Const, Int
from pyvc.terms import Eq, conj, And, Or, Not, Implies
from .specs import *

BOTH = ('tools', 'laue')


def fresh_cell(prefix, native):
    """a fresh symbolic cell whose numeric value is native(env)[i]"""
    names = ['a', 'b', 'c', 'al', 'be', 'ga']
    out = []
    for i, k in enumerate(names):
        nd = (lambda env, i=i: float(native(env)[i]))
        if i < 3:
            out.append(T.real('%s_%s' % (prefix, k), numdef=nd))
        else:
            out.append(T.angle('%s_%s' % (prefix, k), base=(T.Fraction(1, 180), 1), numdef=nd))
    return out


def num_args(args):
    """closure evaluating symbolic call-site arguments on an env (for numeric defs of fresh results)"""
    def ev(x, env):
        if isinstance(x, (T.R, T.I)):
            return T.numeval(x.z, env)
        if isinstance(x, NPM.SArr):
            import numpy as np
            return np.array([ev(v, env) for v in x.flat], float).reshape(x.shape)
        if isinstance(x, (list, tuple)):
            return [ev(v, env) for v in x]
        if isinstance(x, T.Fraction):
            return float(x)
        return x
    return lambda env: [ev(a, env) for a in args]


def native_fn(module, name):
    import importlib
    return getattr(importlib.import_module('xfab.' + module), name)


# ---------------------------------------------------------------------------
# C01

@register(*BOTH)
class CellVolume(Contract):
    name = 'cell_volume'
    signature = [('unit_cell', Cell())]

    def requires(self, c):
        yield 'valid_cell', valid_cell(c)

    def result_spec(self, c):
        return Vspec(c)

    def ensures(self, c, V):
        yield 'positive', V > 0
        yield 'square', Eq(V * V, c[0] * c[0] * c[1] * c[1] * c[2] * c[2] * gram_D(c))
        yield 'equals_spec', Eq(V, Vspec(c))


@register(*BOTH)
class FormAMat(Contract):
    name = 'form_a_mat'
    signature = [('unit_cell', Cell())]

    def requires(self, c):
        yield 'valid_cell', valid_cell(c)

    def result_spec(self, c):
        return NPM.array(Aspec(c))

    def ensures(self, c, A):
        A = entries(A)
        yield 'upper_pos', upper_pos(A)
        yield from named_mat_eq('metric', mm(tr(A), A), G(c))            # A'A = G      (C01)
        yield 'det_is_volume', Eq(det3(A), Vspec(c))                    # det A = V    (C01)
        yield from named_mat_eq('equals_spec', A, Aspec(c))


@register(*BOTH)
class FormBMat(Contract):
    name = 'form_b_mat'
    signature = [('unit_cell', Cell())]

    def requires(self, c):
        yield 'valid_cell', valid_cell(c)

    def result_spec(self, c):
        return NPM.array(Bspec(c, self.K() if symbolic_mode() else self.Knum()))

    def ensures(self, c, Bm):
        K = self.K() if symbolic_mode() else self.Knum()
        Bm = entries(Bm)
        yield 'upper_pos', upper_pos(Bm)
        # B'B is the reciprocal metric tensor times K^2:  (B'B).G = K^2.I          (C01)
        yield from named_mat_eq('recip_metric', mm(mm(tr(Bm), Bm), G(c)), smul(K * K, I3))
        yield from named_mat_eq('equals_spec', Bm, Bspec(c, K))


@register(*BOTH)
class FormAMatInv(Contract):
    name = 'form_a_mat_inv'
    signature = [('unit_cell', Cell())]

    def requires(self, c):
        yield 'valid_cell', valid_cell(c)

    def result_spec(self, c):
        return NPM.inv(NPM.array(Aspec(c)))

    def ensures(self, c, Ai):
        yield from named_mat_eq('left_inverse', mm(Ai, Aspec(c)), I3)
        yield from named_mat_eq('right_inverse', mm(Aspec(c), Ai), I3)


@register(*BOTH)
class Sintl(Contract):
    name = 'sintl'
    signature = [('unit_cell', Cell()), ('hkl', Vec(3, Real(-8, 8), as_list=True))]

    def requires(self, c, hkl):
        yield 'valid_cell', valid_cell(c)

    def fresh_result(self, site, c, hkl):
        na = num_args([c, hkl])
        f = native_fn(self.module, 'sintl')
        return T.real(site + '_stl', numdef=lambda env: float(f(*na(env))))

    def ensures(self, c, hkl, stl):
        K = self.K() if symbolic_mode() else self.Knum()
        g = mv(Bspec(c, K), hkl)
        yield 'nonneg', stl >= 0
        # sin(theta)/lambda = |B.hkl| / (2K)   (|B.hkl|/2 in laue, /4pi in tools)        (C01)
        yield 'is_half_length', Eq(4 * K * K * stl * stl, g[0] * g[0] + g[1] * g[1] + g[2] * g[2])


@register(*BOTH)
class AToCell(Contract):
    name = 'a_to_cell'
    signature = [('A_matrix', Mat(3, 3, Real(-5, 5)))]

    def requires(self, A):
        g = mm(tr(A), A)
        yield 'nondegenerate_columns', conj(g[0][0] > 0, g[1][1] > 0, g[2][2] > 0)

    def fresh_result(self, site, A):
        na = num_args([A])
        f = native_fn(self.module, 'a_to_cell')
        return fresh_cell(site, lambda env: f(*na(env)))

    def ensures(self, A, c):
        g = mm(tr(A), A)
        yield 'lengths_positive', conj(c[0] > 0, c[1] > 0, c[2] > 0)
        yield 'angle_range', conj(c[3] >= 0, c[3] <= 180, c[4] >= 0, c[4] <= 180, c[5] >= 0, c[5] <= 180)
        yield 'sines_nonneg', conj(sind(c[3]) >= 0, sind(c[4]) >= 0, sind(c[5]) >= 0)
        yield from named_mat_eq('metric', G(c), g)                       # G(result) = A'A


@register(*BOTH)
class CellInvert(Contract):
    name = 'cell_invert'
    signature = [('unit_cell', Cell())]

    def requires(self, c):
        yield 'valid_cell', valid_cell(c)

    def result_spec(self, c):
        return cell_invert_spec(c)

    def ensures(self, c, cs):
        a, b, cc = c[0], c[1], c[2]
        ca, cb, cg = cosd(c[3]), cosd(c[4]), cosd(c[5])
        sa, sb, sg = sind(c[3]), sind(c[4]), sind(c[5])
        V = Vspec(c)
        abc = a * b * cc
        D = gram_D(c)
        yield 'astar', Eq(cs[0] * V, b * cc * sa)
        yield 'bstar', Eq(cs[1] * V, a * cc * sb)
        yield 'cstar', Eq(cs[2] * V, a * b * sg)
        yield 'cos_alphastar', Eq(cosd(cs[3]) * sb * sg, cb * cg - ca)
        yield 'cos_betastar', Eq(cosd(cs[4]) * sa * sg, ca * cg - cb)
        yield 'cos_gammastar', Eq(cosd(cs[5]) * sa * sb, ca * cb - cg)
        # helper (cut): sin^2 of the reciprocal angles in closed form, then their sign
        yield 'sinsq_alphastar', Eq(sind(cs[3]) * sind(cs[3]) * sb * sb * sg * sg, D)
        yield 'sinsq_betastar', Eq(sind(cs[4]) * sind(cs[4]) * sa * sa * sg * sg, D)
        yield 'sinsq_gammastar', Eq(sind(cs[5]) * sind(cs[5]) * sa * sa * sb * sb, D)
        yield 'sines_nonneg', conj(sind(cs[3]) >= 0, sind(cs[4]) >= 0, sind(cs[5]) >= 0)
        yield 'sines_positive', conj(sind(cs[3]) > 0, sind(cs[4]) > 0, sind(cs[5]) > 0)
        yield 'sin_alphastar', Eq(sind(cs[3]) * abc * sb * sg, V)
        yield 'sin_betastar', Eq(sind(cs[4]) * abc * sa * sg, V)
        yield 'sin_gammastar', Eq(sind(cs[5]) * abc * sa * sb, V)
        yield 'lengths_positive', conj(cs[0] > 0, cs[1] > 0, cs[2] > 0)
        yield 'angle_range', conj(cs[3] >= 0, cs[3] <= 180, cs[4] >= 0, cs[4] <= 180, cs[5] >= 0, cs[5] <= 180)
        if symbolic_mode():
            for i in (3, 4, 5):
                axiom_sin_pos_deg(cs[i])
        yield 'angles_strict', conj(cs[3] > 0, cs[3] < 180, cs[4] > 0, cs[4] < 180, cs[5] > 0, cs[5] < 180)
        yield 'gram_star', Eq(gram_D(cs) * sa * sa * sb * sb * sg * sg, D * D)
        yield '~gram_star_positive', gram_D(cs) > 0      # runtime-checked only (nra beyond the solvers)
        yield from named_mat_eq('reciprocal_metric', mm(G(cs), G(c)), I3)       # G* . G = I   (C01)


@register(*BOTH)
class BToCell(Contract):
    """ghost parameter c0: the contract is about B matrices of valid cells (what C01 asks for):
    b_to_cell(B(c0)) == c0"""
    name = 'b_to_cell'
    signature = [('c0', Cell())]

    def requires(self, c0):
        yield 'valid_cell', valid_cell(c0)

    def actuals(self, c0):
        K = self.K() if symbolic_mode() else self.Knum()
        Bm = Bspec(c0, K)
        return [NPM.array(Bm) if symbolic_mode() else Bm]

    def sqrt_hints(self, c0):
        return cell_sqrt_hints(c0)

    def ensures(self, c0, c):
        if symbolic_mode():
            for i in (3, 4, 5):
                axiom_cos_injective_deg(c[i], c0[i])
        for i, nm in enumerate(['a', 'b', 'c']):
            yield 'returns_' + nm, Eq(c[i], c0[i])
        for i, nm in ((3, 'alpha'), (4, 'beta'), (5, 'gamma')):
            yield 'cos_' + nm, Eq(cosd(c[i]), cosd(c0[i]))
            yield 'range_' + nm, conj(c[i] >= 0, c[i] <= 180)
            yield 'returns_' + nm, Eq(c[i], c0[i])
