"""Contracts for xfab.structure (C07, C08, C15, C16, C17)."""
import math

from pyvc import terms as T
from pyvc import npmodel as NPM
from pyvc.engine import Contract, register, Real, Angle, Vec, Mat, Const, Int, Cell
from pyvc.terms import Eq, conj, And, Or, Not, Implies
from .specs import *


def formfactor_spec(data, stl):
    """sum_{i<4} a_i exp(-b_i s^2) + c with the nine tabulated coefficients"""
    acc = 0
    for i in range(4):
        acc = acc + data[i] * T.exp(-data[i + 4] * stl * stl)
    return acc + data[8]


class _AtomlibStub:
    def __init__(self, table):
        self.formfactor = table


@register('structure')
class FormFactor(Contract):
    """ghost parameter `data`: the nine coefficients of the table entry that is looked up"""
    name = 'FormFactor'
    signature = [('data', Vec(9, Real(0.01, 40), as_list=True)), ('stl', Real(0, 2))]
    let_abstraction = False
    native_validation = False      # the table-level check runs the real FormFactor on every element

    def actuals(self, data, stl):
        return ['XX', stl]

    def extra_ns(self, data, stl):
        return {'atomlib': _AtomlibStub({'XX': data})}

    def ensures(self, data, stl, res):
        yield 'is_four_gaussians_plus_constant', Eq(res, formfactor_spec(data, stl))
