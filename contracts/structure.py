"""Contracts for xfab.structure (C07, C08, C15, C16, C17)."""
import math

from pyvc import terms as T
from pyvc import npmodel as NPM
from pyvc.engine import Contract, register, Real, Angle, Vec, Mat, Const, Int, Cell
from pyvc.terms import Eq, conj, And, Or, Not, Implies
from .specs import *


def formfactor_spec(data, stl):
    """sum_{i<4} a_i exp(-b_i s^2) + c with the nine tabulated coefficients"""
    acc = 0
    for i in range(4):
        acc = acc + data[i] * T.exp(-data[i + 4] * stl * stl)
    return acc + data[8]


class _AtomlibStub:
    """atomlib as seen by FormFactor: the looked-up entry is symbolic; every other module-level literal of the
    real atomlib.py is visible with its real value"""

    def __init__(self, table):
        self.formfactor = table

    def __getattr__(self, name):
        import ast as _ast
        from pyvc.source import Source
        for node in Source().module('atomlib').body:
            if isinstance(node, _ast.Assign) and getattr(node.targets[0], 'id', None) == name:
                return _ast.literal_eval(node.value)
        raise AttributeError(name)


@register('structure')
class FormFactor(Contract):
    """ghost parameter `data`: the nine coefficients of the table entry that is looked up"""
    name = 'FormFactor'
    signature = [('data', Vec(9, Real(0.01, 40), as_list=True)), ('stl', Real(0, 2))]
    let_abstraction = False
    native_validation = False      # the table-level check runs the real FormFactor on every element

    def actuals(self, data, stl):
        return ['XX', stl]

    def extra_ns(self, data, stl):
        return {'atomlib': _AtomlibStub({'XX': data})}

    def ensures(self, data, stl, res):
        yield 'is_four_gaussians_plus_constant', Eq(res, formfactor_spec(data, stl))


# ---------------------------------------------------------------------------
# C08 / C07 -- StructureFactor and Uij2betaij

def beta_spec(adp, c):
    """beta_ij = 2 pi^2 a*_i a*_j U_ij, U given as [U11, U22, U33, U23, U13, U12]"""
    U = [[adp[0], adp[5], adp[4]], [adp[5], adp[1], adp[3]], [adp[4], adp[3], adp[2]]]
    cs = reciprocal_lengths(c)
    pi = PI()
    return [[2 * pi * pi * cs[i] * cs[j] * U[i][j] for j in range(3)] for i in range(3)]


@register('structure')
class Uij2BetaIJ(Contract):
    name = 'Uij2betaij'
    signature = [('adp', Vec(6, Real(-0.05, 0.05), as_list=True)), ('ucell', Cell())]

    def requires(self, adp, c):
        yield 'valid_cell', valid_cell(c)

    def result_spec(self, adp, c):
        return NPM.array(beta_spec(adp, c))

    def ensures(self, adp, c, res):
        yield from named_mat_eq('beta_is_2pi2_astar_astar_U', res, beta_spec(adp, c))
        res = entries(res)
        yield 'symmetric', conj(Eq(res[0][1], res[1][0]), Eq(res[0][2], res[2][0]), Eq(res[1][2], res[2][1]))


def _random_op(rng):
    """a point-group matrix as they occur in the tables (incl. hexagonal-axes 3/6-fold ones, which are not symmetric)"""
    pool = [[[1, 0, 0], [0, 1, 0], [0, 0, 1]], [[0, -1, 0], [1, -1, 0], [0, 0, 1]], [[-1, 1, 0], [-1, 0, 0], [0, 0, 1]],
            [[0, -1, 0], [1, 0, 0], [0, 0, 1]], [[0, 0, 1], [1, 0, 0], [0, 1, 0]], [[1, -1, 0], [1, 0, 0], [0, 0, 1]],
            [[-1, 0, 0], [0, 1, 0], [0, 0, -1]], [[0, 1, 0], [1, 0, 0], [0, 0, -1]], [[1, -1, 0], [0, -1, 0], [0, 0, -1]]]
    return [list(map(float, r)) for r in rng.choice(pool)]


class _Atom:
    def __init__(self, **kw):
        self.__dict__.update(kw)


class _SgRecord:
    def __init__(self, rot, trans):
        self.nsymop = len(rot)
        self.nuniq = len(rot)          # the symbolic instance is a primitive group: no centring copies
        self.rot = rot
        self.trans = trans


class _SgModule:
    def __init__(self, rec):
        self.rec = rec

    def sg(self, sgname=None, sgno=None, cell_choice='standard'):
        return self.rec


def ff_symbol(atomtype, stl):
    """FormFactor(atomtype, stl) as an uninterpreted function of stl per atom type (its contract --
    the explicit four-Gaussian sum -- is discharged separately under C16)"""
    if not symbolic_mode():
        import xfab.structure as S
        return float(S.FormFactor({'T0': 'C', 'T1': 'FE'}.get(atomtype, atomtype), stl))
    c = T.ctx()
    f = c.memo.setdefault(('ffuf', atomtype), T.z3.Function('FormFactor_' + atomtype, T.z3.RealSort(), T.z3.RealSort()))
    import xfab.structure as S
    real_t = {'T0': 'C', 'T1': 'FE'}.get(atomtype, atomtype)
    c.ufnum['FormFactor_' + atomtype] = lambda s_, real_t=real_t: float(S.FormFactor(real_t, s_))
    return T.R(f(T.lift(stl).z))


def sf_spec(hkl, cell, ops, atoms, stl, ff):
    """explicit structure-factor sum over atoms i and operations j (C08):
       occ_i m_i / nsymop * (f_i + f'_i + i f''_i) * DW_ij * exp(2 pi i h.(R_j x_i + t_j))"""
    pi = PI()
    n = len(ops)
    Fr, Fi = 0, 0
    for a in atoms:
        f = ff(a.atomtype, stl)
        for (R, t) in ops:
            if a.adp_type == 'Uiso':
                dw = T.exp(-8 * pi ** 2 * a.adp * stl ** 2)
            elif a.adp_type == 'Uani':
                beta = beta_spec(a.adp, cell)
                brot = mm(R, mm(beta, tr(R)))              # R beta R'  (tensor of the symmetry-equivalent atom)
                bh = mv(brot, hkl)
                dw = T.exp(-(hkl[0] * bh[0] + hkl[1] * bh[1] + hkl[2] * bh[2]))
            else:
                dw = 1
            r = mv(R, a.pos)
            r = [r[k] + t[k] for k in range(3)]
            ph = 2 * pi * (hkl[0] * r[0] + hkl[1] * r[1] + hkl[2] * r[2])
            s_, c_ = T.sin(ph), T.cos(ph)
            w = a.occ * a.symmulti / n
            Fr = Fr + dw * (c_ * (f + a.fp) - s_ * a.fpp) * w
            Fi = Fi + dw * (s_ * (f + a.fp) + c_ * a.fpp) * w
    return Fr, Fi


def make_sf_contract(adp_types, disp_modes):
    """StructureFactor on 2 atoms x 2 operations with fully symbolic data; adp type and the shape of the
    dispersion table per atom are the concrete parameters of the instance"""
    key = 'StructureFactor#adp=%s;disper=%s' % (','.join(str(x) for x in adp_types), ','.join(disp_modes))

    class SF(Contract):
        name = 'StructureFactor'
        max_paths = 16
        let_abstraction = False     # cos/sin/exp arguments must stay explicit to be matched with the spec's
        signature = [('hkl', Vec(3, Int(-8, 8), as_list=True)), ('ucell', Cell())]
        for _i in range(2):
            signature += [('pos%d' % _i, Vec(3, Real(0, 1), as_list=True)), ('occ%d' % _i, Real(0.05, 1)),
                          ('mult%d' % _i, Real(1, 8)), ('fp%d' % _i, Real(-1, 1)), ('fpp%d' % _i, Real(0, 1)),
                          ('uiso%d' % _i, Real(0, 0.05)), ('uani%d' % _i, Vec(6, Real(-0.02, 0.05), as_list=True))]
        for _j in range(2):
            signature += [('R%d' % _j, Mat(3, 3, Real(-1, 1), sampler=_random_op)), ('t%d' % _j, Vec(3, Real(0, 1), as_list=True))]

        def native_call(self, *vals):
            """the real StructureFactor on concrete data: sg.sg is replaced by a record holding the two sampled
            operations, atom types map to real table entries (T0 -> C, T1 -> FE)"""
            import numpy as np
            import xfab.structure as S
            hkl, cell, atoms, ops = self.unpack(vals)
            for a, real_t in zip(atoms, ('C', 'FE')):
                a.atomtype = real_t
                a.pos = np.array(a.pos, float)
            disp = self.disper(atoms)
            rec = _SgRecord([np.array(o[0], float) for o in ops], [np.array(o[1], float) for o in ops])
            saved = S.sg
            S.sg = _SgModule(rec)
            try:
                return S.StructureFactor(list(hkl), list(cell), 'XX', atoms, disp)
            finally:
                S.sg = saved

        def unpack(self, args):
            hkl, cell = args[0], args[1]
            atoms = []
            for i in range(2):
                pos, occ, mult, fp, fpp, uiso, uani = args[2 + 7 * i: 9 + 7 * i]
                at = adp_types[i]
                adp = uiso if at == 'Uiso' else (uani if at == 'Uani' else 0.0)
                mode = disp_modes[i]
                atoms.append(_Atom(label='a%d' % i, atomtype='T%d' % i if symbolic_mode() else ('C', 'FE')[i], pos=pos, adp_type=at, adp=adp, occ=occ,
                                   symmulti=mult, fp=fp if mode == 'present' else 0, fpp=fpp if mode == 'present' else 0))
            ops = [(args[16], args[17]), (args[18], args[19])]
            return hkl, cell, atoms, ops

        def requires(self, *args):
            yield 'valid_cell', valid_cell(args[1])

        def disper(self, atoms):
            if all(m == 'absent' for m in disp_modes):
                return None
            d = {}
            for a, m in zip(atoms, disp_modes):
                d[a.atomtype] = None if m != 'present' else [a.fp, a.fpp]
            return d

        def actuals(self, *args):
            hkl, cell, atoms, ops = self.unpack(args)
            self._atoms = atoms
            return [hkl, cell, 'XX', atoms, self.disper(atoms)]

        def extra_ns(self, *args):
            hkl, cell, atoms, ops = self.unpack(args)
            rec = _SgRecord([NPM.array(entries(o[0])) for o in ops], [NPM.array(list(o[1])) for o in ops])
            return {'sg': _SgModule(rec), 'FormFactor': ff_symbol}

        def ensures(self, *args):
            res = args[-1]
            args = args[:-1]
            hkl, cell, atoms, ops = self.unpack(args)
            stl = Sintl_spec_symbol(cell, hkl)
            Fr, Fi = sf_spec(hkl, cell, [(entries(R), list(t)) for R, t in ops], atoms, stl, ff_symbol)
            yield 'real_part_is_explicit_sum', Eq(res[0], Fr)
            yield 'imaginary_part_is_explicit_sum', Eq(res[1], Fi)
    SF.key = key
    SF.__name__ = 'SF_' + key
    return SF


def Sintl_spec_symbol(cell, hkl):
    """the value the sintl contract stands for at a call site: memoised per (cell, hkl) so that the
    code's call and the spec refer to the same symbol"""
    if not symbolic_mode():
        import xfab.tools as tools
        return float(tools.sintl(cell, hkl))
    from pyvc.engine import REGISTRY
    k = REGISTRY[('tools', 'sintl')]
    return k.fresh_result(T.ctx().fresh('spec_sintl'), cell, hkl)


SF_VARIANTS = []
for _adp in (('Uiso', 'Uani'), ('Uani', None), (None, 'Uiso'), ('Uani', 'Uani')):
    for _disp in (('absent', 'absent'), ('present', 'none_entry'), ('present', 'present')):
        _k = make_sf_contract(_adp, _disp)
        register('structure')(_k)
        SF_VARIANTS.append(_k.key)
