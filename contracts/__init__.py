def load_all():
    import importlib
    import os
    here = os.path.dirname(__file__)
    for f in sorted(os.listdir(here)):
        if f.endswith('.py') and f not in ('__init__.py',):
            importlib.import_module('contracts.' + f[:-3])
