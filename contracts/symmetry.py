"""Contracts for xfab.symmetry (C12)."""
import math
from fractions import Fraction

from pyvc import terms as T
from pyvc import npmodel as NPM
from pyvc.engine import Contract, register, Real, Angle, Vec, Mat, Rot, Const, Int
from pyvc.terms import Eq, conj, And, Or, Not, Implies
from .specs import *


def umis_length(U1, U2, Rk):
    """(trace(U1' U2 Rk') - 1)/2 : cosine of the rotation angle of U1'.U2.Rk'"""
    M = mm(tr(U1), U2)
    Mr = mm(M, tr(Rk))
    return (Mr[0][0] + Mr[1][1] + Mr[2][2]) / 2 - Fraction(1, 2)


def clip11(x):
    if T.symbolic(x):
        return NPM.clip(x, -1, 1)
    return min(1.0, max(-1.0, x))


def make_umis_contract(system, rots):
    class Umis(Contract):
        name = 'Umis'
        key = 'Umis#system=%d' % system
        signature = [('umat_1', Rot()), ('umat_2', Rot())]
        let_abstraction = False

        def requires(self, U1, U2):
            yield 'U1_is_rotation', is_rotation(U1)
            yield 'U2_is_rotation', is_rotation(U2)

        def actuals(self, U1, U2):
            return [U1, U2, system]

        def extra_ns(self, U1, U2):
            return {'ROTATIONS': [None] * system + [NPM.array(list(rots))] + [None] * (7 - system)}

        def ensures(self, U1, U2, res):
            rows = entries(res)
            yield 'one_row_per_operation', len(rows) == len(rots)
            for k, Rk in enumerate(list(rots)):
                yield 'index[%d]' % k, Eq(rows[k][0], k)
                ang = rows[k][1]
                yield 'angle_in_0_180[%d]' % k, conj(ang >= 0, ang <= 180)
                # the angle is that of U1'.U2.rot[k]':  cos(angle) = clip((trace - 1)/2)
                yield 'cos_of_angle_is_half_trace_minus_half[%d]' % k, Eq(cosd(ang), clip11(umis_length(U1, U2, Rk)))
    Umis.__name__ = 'Umis_%d' % system
    return Umis
