"""Contracts for xfab.detector (C10, C11)."""
import math

from pyvc import terms as T
from pyvc import npmodel as NPM
from pyvc.engine import Contract, register, Real, Angle, Vec, Mat, Rot, Const, Int
from pyvc.terms import Eq, conj, And, Or, Not, Implies
from .specs import *


def col(R, k):
    R = entries(R)
    return [R[0][k], R[1][k], R[2][k]]


def dotv(a, b):
    return a[0] * b[0] + a[1] * b[1] + a[2] * b[2]


def ray_parameter(v, L, R, grain):
    """t with  R[:,0] . (grain - (L,0,0) + t v) = 0 : intersection of the ray with the detector plane"""
    Re = entries(R)
    return (Re[0][0] * L - dotv(col(R, 0), grain)) / dotv(col(R, 0), v)


def detcoor_spec(v, L, py, pz, y0, z0, R, grain):
    t = ray_parameter(v, L, R, grain)
    Ltv = [grain[0] - L + t * v[0], grain[1] + t * v[1], grain[2] + t * v[2]]
    return [dotv(col(R, 1), Ltv) / py + y0, dotv(col(R, 2), Ltv) / pz + z0]


def lab_spec(dety, detz, L, py, pz, y0, z0, R):
    w = mv(R, [0, py * (dety - y0), pz * (detz - z0)])
    return [L + w[0], w[1], w[2]]


SMALL = Real(-2, 2)
DIST = Real(10, 1000)
PIX = Real(0.01, 0.5)
CEN = Real(-2000, 2000)


def tilt_sampler(rng):
    import numpy as np
    tx, ty, tz = [rng.uniform(-0.3, 0.3) for _ in range(3)]
    r = rng.random()
    if r < 0.15:          # a nearly aligned detector: tilts of micro- to milliradians (and exact zeros)
        tx, ty, tz = [rng.choice([0.0, 0.0, 1.0, -1.0]) * rng.choice([1e-7, 1e-5, 1e-4, 3e-4, 6e-4, 9e-4, 2e-3]) for _ in range(3)]
    elif r < 0.2:
        tx, ty, tz = 0.0, 0.0, 0.0
    return mm(Rx(tx), mm(Ry(ty), Rz(tz)))


class _DetBase(Contract):
    def common_requires(self, v, L, py, pz, R):
        yield 'tilt_is_rotation', is_rotation(R)
        yield 'pixel_sizes_nonzero', conj(py > 0, pz > 0)
        yield 'ray_not_parallel_to_detector', Not(Eq(dotv(col(R, 0), v), 0))

    def on_ray(self, res, v, L, py, pz, y0, z0, R, grain):
        """the pixel mapped back to the laboratory lies on the ray grain + t v"""
        t = ray_parameter(v, L, R, grain)
        lab = lab_spec(res[0], res[1], L, py, pz, y0, z0, R)
        for i, nm in enumerate('xyz'):
            yield 'lab_point_on_ray_' + nm, Eq(lab[i], grain[i] + t * v[i])
        sp = detcoor_spec(v, L, py, pz, y0, z0, R, grain)
        yield 'equals_spec_dety', Eq(res[0], sp[0])
        yield 'equals_spec_detz', Eq(res[1], sp[1])


@register('detector')
class DetCoor2(_DetBase):
    name = 'det_coor2'
    signature = [('tth', Angle(math.radians(0.5), math.radians(60))), ('eta', Angle(-math.pi, math.pi)),
                 ('distance', DIST), ('y_size', PIX), ('z_size', PIX), ('dety_center', CEN), ('detz_center', CEN),
                 ('R_tilt', Mat(3, 3, Real(-1, 1), tilt_sampler)), ('tx', SMALL), ('ty', SMALL), ('tz', SMALL)]

    def v(self, tth, eta):
        return [T.cos(tth), -T.sin(tth) * T.sin(eta), T.sin(tth) * T.cos(eta)]

    def requires(self, tth, eta, L, py, pz, y0, z0, R, tx, ty, tz):
        yield from self.common_requires(self.v(tth, eta), L, py, pz, R)

    def result_spec(self, tth, eta, L, py, pz, y0, z0, R, tx, ty, tz):
        return detcoor_spec(self.v(tth, eta), L, py, pz, y0, z0, R, [tx, ty, tz])

    def ensures(self, tth, eta, L, py, pz, y0, z0, R, tx, ty, tz, res):
        yield from self.on_ray(res, self.v(tth, eta), L, py, pz, y0, z0, R, [tx, ty, tz])


@register('detector')
class DetCoor(_DetBase):
    name = 'det_coor'
    signature = [('Gt', Vec(3, Real(-3, 3))), ('costth', Real(0.5, 1.0)), ('wavelength', Real(0.1, 2.0)),
                 ('distance', DIST), ('y_size', PIX), ('z_size', PIX), ('dety_center', CEN), ('detz_center', CEN),
                 ('R_tilt', Mat(3, 3, Real(-1, 1), tilt_sampler)), ('tx', SMALL), ('ty', SMALL), ('tz', SMALL)]

    def v(self, Gt, costth, lam):
        g = list(Gt.flat) if isinstance(Gt, NPM.SArr) else list(Gt)
        return [costth, lam / (2 * PI()) * g[1], lam / (2 * PI()) * g[2]]

    def requires(self, Gt, costth, lam, L, py, pz, y0, z0, R, tx, ty, tz):
        yield from self.common_requires(self.v(Gt, costth, lam), L, py, pz, R)

    def result_spec(self, Gt, costth, lam, L, py, pz, y0, z0, R, tx, ty, tz):
        return detcoor_spec(self.v(Gt, costth, lam), L, py, pz, y0, z0, R, [tx, ty, tz])

    def ensures(self, Gt, costth, lam, L, py, pz, y0, z0, R, tx, ty, tz, res):
        # same spec function of the ray direction v as det_coor2: equal rays give equal pixels
        yield from self.on_ray(res, self.v(Gt, costth, lam), L, py, pz, y0, z0, R, [tx, ty, tz])


@register('detector')
class DetV(Contract):
    name = 'det_v'
    signature = DetCoor.signature

    def ensures(self, Gt, costth, lam, L, py, pz, y0, z0, R, tx, ty, tz, res):
        g = list(Gt.flat) if isinstance(Gt, NPM.SArr) else list(Gt)
        yield 'direction', vec_eq(res, [costth, lam / (2 * PI()) * g[1], lam / (2 * PI()) * g[2]])


@register('detector')
class DetectorToLab(Contract):
    name = 'detector_to_lab'
    signature = [('dety', CEN), ('detz', CEN), ('L', DIST), ('py', PIX), ('pz', PIX), ('y0', CEN), ('z0', CEN),
                 ('R_tilt', Mat(3, 3, Real(-1, 1), tilt_sampler))]

    def result_spec(self, dety, detz, L, py, pz, y0, z0, R):
        return lab_spec(dety, detz, L, py, pz, y0, z0, R)

    def ensures(self, dety, detz, L, py, pz, y0, z0, R, res):
        yield 'is_L_plus_tilted_offset', vec_eq(res, lab_spec(dety, detz, L, py, pz, y0, z0, R))
