#!/venv/bin/python
"""C17 bounded stand-in (runs under /venv/bin/python, which has PyCifRW): generate well-formed CIF blocks and PDB
files, read them with the real build_atomlist.CIFread / PDBread, and compare with what the file states.
usage: c17_ingest.py <n_files> <seed>      prints one JSON object"""
import json
import math
import os
import random
import re
import sys
import tempfile
import atexit
import shutil

n_files, seed = int(sys.argv[1]), int(sys.argv[2])
rng = random.Random(seed)
import numpy as np
from xfab import structure, sg as sgmod, sglib

EIGHT_PI2 = 8 * math.pi ** 2
ELEMENTS = ['C', 'O', 'N', 'Fe', 'Si', 'Na', 'Cl', 'H', 'S']


def names_230():
    out = []
    for no in range(1, 231):
        out.append(getattr(sglib, 'Sg%d' % no)().name)
    return out


def fmt(x, esd):
    s = '%.5f' % x
    return s + ('(%d)' % rng.randint(1, 99) if esd else '')


def spaced(name):
    """a symbol with random blanks, as CIF writers produce it"""
    return ''.join(ch + (' ' if rng.random() < 0.3 else '') for ch in name).strip()


def exact_orbit(sgname, pos):
    o = sgmod.sg(sgname=sgname)
    imgs = set()
    for R, t in zip(o.rot, o.trans):
        v = np.array(R).dot(pos) + np.array(t)
        imgs.add(tuple(int(round((x % 1.0) * 100000)) % 100000 for x in v))
    return len(imgs)


def gen_cif():
    name = rng.choice(NAMES)
    cell = [rng.uniform(3, 20) for _ in range(3)] + [rng.uniform(60, 120) for _ in range(3)]
    esd = rng.random() < 0.5
    natoms = rng.randint(1, 12)
    with_occ = rng.random() < 0.6
    multkey = rng.choice([None, '_atom_site_symmetry_multiplicity', '_atom_site_symetry_multiplicity'])
    with_types = rng.random() < 0.6
    with_disp = with_types and rng.random() < 0.7
    atoms = []
    ani_kind = rng.choice(['U', 'B'])            # one anisotropic loop per block, either U or B
    has_adp_col = rng.random() < 0.8             # adp type absent <=> the column is absent
    for i in range(natoms):
        el = rng.choice(ELEMENTS)
        adp = rng.choice(['Uiso', 'Biso', ani_kind + 'ani']) if has_adp_col else None
        a = {'label': '%s%d' % (el, i + 1), 'el': el, 'pos': [round(rng.random(), 5) for _ in range(3)], 'adp_type': adp,
             'iso': round(rng.uniform(0.005, 2.0), 5), 'ani': [round(rng.uniform(-0.5, 2.0), 5) for _ in range(6)],
             'occ': round(rng.uniform(0.1, 1.0), 5), 'mult': rng.randint(1, 8)}
        atoms.append(a)
    lines = ['data_%s' % 'blk', '_cell_length_a %s' % fmt(cell[0], esd), '_cell_length_b %s' % fmt(cell[1], esd),
             '_cell_length_c %s' % fmt(cell[2], esd), '_cell_angle_alpha %s' % fmt(cell[3], esd),
             '_cell_angle_beta %s' % fmt(cell[4], esd), '_cell_angle_gamma %s' % fmt(cell[5], esd),
             "_symmetry_space_group_name_H-M '%s'" % spaced(name)]
    types = sorted({a['el'] for a in atoms})
    disp = {}
    if with_types:
        lines += ['loop_', '_atom_type_symbol']
        if with_disp:
            lines += ['_atom_type_scat_dispersion_real', '_atom_type_scat_dispersion_imag']
        for t in types:
            if with_disp:
                d = [round(rng.uniform(-0.5, 0.5), 4), round(rng.uniform(0, 0.5), 4)]
                disp[t.upper()] = d
                lines.append('%s %s %s' % (t, fmt(d[0], esd), fmt(d[1], esd)))
            else:
                disp[t.upper()] = None
                lines.append(t)
    else:
        for t in types:
            disp[t.upper()] = None
    cols = ['_atom_site_label', '_atom_site_type_symbol', '_atom_site_fract_x', '_atom_site_fract_y', '_atom_site_fract_z']
    if has_adp_col:
        cols.append('_atom_site_adp_type')
    if any(a['adp_type'] in ('Uiso', 'Uani') for a in atoms) or rng.random() < 0.3:
        cols.append('_atom_site_U_iso_or_equiv')
    if any(a['adp_type'] in ('Biso', 'Bani') for a in atoms):
        cols.append('_atom_site_B_iso_or_equiv')
    if with_occ:
        cols.append('_atom_site_occupancy')
    if multkey:
        cols.append(multkey)
    lines += ['loop_'] + cols
    for a in atoms:
        row = []
        for c in cols:
            if c == '_atom_site_label':
                row.append(a['label'])
            elif c == '_atom_site_type_symbol':
                row.append(a['el'])
            elif c.startswith('_atom_site_fract_'):
                row.append(fmt(a['pos']['xyz'.index(c[-1])], esd))
            elif c == '_atom_site_adp_type':
                row.append(a['adp_type'] if a['adp_type'] else '.')
            elif c in ('_atom_site_U_iso_or_equiv', '_atom_site_B_iso_or_equiv'):
                row.append(fmt(a['iso'], esd))
            elif c == '_atom_site_occupancy':
                row.append(fmt(a['occ'], esd))
            else:
                row.append(str(a['mult']))
        lines.append(' '.join(row))
    for kind in ('U', 'B'):
        sel = [a for a in atoms if a['adp_type'] == kind + 'ani']
        if sel:
            rng.shuffle(sel)
            lines += ['loop_', '_atom_site_aniso_label'] + ['_atom_site_aniso_%s_%s' % (kind, ij) for ij in ('11', '22', '33', '23', '13', '12')]
            for a in sel:
                lines.append(a['label'] + ' ' + ' '.join(fmt(v, esd) for v in a['ani']))
    text = '\n'.join(lines) + '\n'
    if rng.random() < 0.3:
        text = 'data_global\n_audit_creation_method generator\n' + text
    # a '.' in the adp type column means "no adp type given": xfab sees the string '.', which is none of the four types
    return text, {'name': name, 'cell': cell, 'atoms': atoms, 'with_occ': with_occ, 'multkey': multkey, 'disp': disp,
                  'has_adp_col': has_adp_col}


_WORKDIR = tempfile.mkdtemp(prefix='c17.', dir='/dev/shm')
atexit.register(shutil.rmtree, _WORKDIR, True)


def _write(name, text):
    """every file of this process goes to the same path and is padded to a multiple of 4096 bytes, as a program that
    rewrites its input in place would produce it: a reader that remembers a file by name (and size) shows here"""
    path = os.path.join(_WORKDIR, name)
    data = text.encode()
    data += b'\n' * (-len(data) % 4096)
    with open(path, 'wb') as f:
        f.write(data)
    return path


def check_cif(text, exp):
    path = _write('structure.cif', text)
    try:
        bl = structure.build_atomlist()
        bl.CIFread(ciffile=path)
    except Exception as e:
        return 'CIFread raised %r' % (e,)
    al = bl.atomlist
    if any(abs(a - round(b, 5)) > 1e-9 for a, b in zip(al.cell, exp['cell'])):
        return 'cell %r != %r' % (al.cell, exp['cell'])
    if al.sgname != re.sub(r'\s+', '', exp['name']):
        return 'sgname %r' % al.sgname
    if len(al.atom) != len(exp['atoms']):
        return 'number of atoms'
    for got, a in zip(al.atom, exp['atoms']):
        if got.label != a['label'] or got.atomtype != a['el'].upper():
            return 'label/type %r %r' % (got.label, got.atomtype)
        if any(abs(x - y) > 1e-9 for x, y in zip(got.pos, a['pos'])):
            return 'pos of %s' % a['label']
        t = a['adp_type']
        if t == 'Uiso':
            ok = got.adp_type == 'Uiso' and abs(got.adp - a['iso']) < 1e-9
        elif t == 'Biso':
            ok = got.adp_type == 'Uiso' and abs(got.adp - a['iso'] / EIGHT_PI2) < 1e-9
        elif t == 'Uani':
            ok = got.adp_type == 'Uani' and all(abs(x - y) < 1e-9 for x, y in zip(got.adp, a['ani']))
        elif t == 'Bani':
            ok = got.adp_type == 'Uani' and all(abs(x - y / EIGHT_PI2) < 1e-9 for x, y in zip(got.adp, a['ani']))
        else:
            ok = True
        if not ok:
            return 'adp of %s (%s): %r %r' % (a['label'], t, got.adp_type, got.adp)
        occ = a['occ'] if exp['with_occ'] else 1.0
        if abs(got.occ - occ) > 1e-9:
            return 'occupancy of %s: %r' % (a['label'], got.occ)
        m = a['mult'] if exp['multkey'] else exact_orbit(exp['name'], a['pos'])
        if got.symmulti != m:
            return 'multiplicity of %s: %r, expected %r (%s)' % (a['label'], got.symmulti, m, 'file' if exp['multkey'] else 'computed')
    for k, v in exp['disp'].items():
        g = al.dispersion.get(k, 'missing')
        if v is None:
            if g is not None:
                return 'dispersion of %s should be None: %r' % (k, g)
        elif g in (None, 'missing') or any(abs(x - y) > 1e-9 for x, y in zip(g, v)):
            return 'dispersion of %s: %r != %r' % (k, g, v)
    return None


def _tokenizations(rest):
    """all ways to split a compact Hermann-Mauguin symbol (without lattice letter) into axis / plane tokens"""
    if not rest:
        return [[]]
    out = []
    m = re.match(r'-[1-6]', rest)
    cands = []
    if m:
        cands.append(m.group(0))
    m = re.match(r'[2-6][1-5]', rest)
    if m and int(m.group(0)[1]) < int(m.group(0)[0]):
        cands.append(m.group(0))
    m = re.match(r'[1-6]', rest)
    if m:
        cands.append(m.group(0))
    m = re.match(r'[a-z]', rest)
    if m:
        cands.append(m.group(0))
    for c in cands:
        tail = rest[len(c):]
        m2 = re.match(r'/[a-z]', tail)
        variants = [c]
        if m2 and c[0] != '-' and not c.isalpha():
            variants = [c + m2.group(0)]
        for v in variants:
            for t in _tokenizations(rest[len(v):]):
                out.append([v] + t)
    return out


def pdb_symbol(name):
    """the PDB-style full symbol (blank-separated, with '1' place-holders for monoclinic unique-axis-b groups);
    None when the compact name cannot be split unambiguously by the rules of its crystal system"""
    o = sgmod.sg(sgname=name)
    lat, rest = name[0], name[1:]
    cs = o.crystal_system
    good = []
    for t in _tokenizations(rest):
        base = [x.split('/')[0] for x in t]
        two = {'2', '21'}
        letters = set('abcdemn')
        if cs == 'triclinic':
            ok = len(t) == 1
        elif cs == 'monoclinic':
            ok = len(t) == 1
        elif cs == 'orthorhombic':
            ok = len(t) == 3 and all(b in two or b in letters for b in base)
        elif cs == 'tetragonal':
            ok = len(t) in (1, 3) and base[0] in ('4', '41', '42', '43', '-4') and all(b in two or b in letters for b in base[1:])
        elif cs == 'trigonal':
            ok = len(t) in (1, 3) and base[0] in ('3', '31', '32', '-3') and all(b in ('1', '2', 'm', 'c') for b in base[1:]) \
                and (len(t) == 1 or base[1:].count('1') == 1)
        elif cs == 'hexagonal':
            ok = len(t) in (1, 3) and base[0] in ('6', '61', '62', '63', '64', '65', '-6') and all(b in ('2', 'm', 'c') for b in base[1:])
        else:
            ok = len(t) in (2, 3) and base[1] in ('3', '-3') and base[0] in ('2', '21', '4', '41', '42', '43', '-4', 'm', 'n', 'a', 'd') \
                and all(b in ('2', 'm', 'n', 'c', 'd') for b in base[2:])
        if ok:
            good.append(t)
    if len(good) != 1:
        return None
    parts = good[0]
    if cs == 'monoclinic':
        parts = ['1', parts[0], '1']
    return ' '.join([lat] + parts)


def gen_pdb():
    name = rng.choice(PDBNAMES)
    cell = [round(rng.uniform(10, 90), 3) for _ in range(3)] + [round(rng.uniform(70, 110), 2) for _ in range(3)]
    o = sgmod.sg(sgname=name)
    sym = pdb_symbol(name)
    A = np.array(structure.tools.form_a_mat(cell))
    S = np.linalg.inv(A)
    lines = ['HEADER    GENERATED', 'CRYST1%9.3f%9.3f%9.3f%7.2f%7.2f%7.2f %-11s%4d' % (cell[0], cell[1], cell[2], cell[3], cell[4], cell[5], sym, 1)]
    Sr = np.round(S, 6)
    # the translation column u of SCALE (zero in most deposited files, but part of the record)
    u = [0.0, 0.0, 0.0] if rng.random() < 0.4 else [round(rng.uniform(-0.5, 0.5), 5) for _ in range(3)]
    for i in range(3):
        lines.append('SCALE%d    %10.6f%10.6f%10.6f     %10.5f' % (i + 1, Sr[i, 0], Sr[i, 1], Sr[i, 2], u[i]))
    atoms = []
    for i in range(rng.randint(1, 12)):
        el = rng.choice(ELEMENTS)
        xyz = [round(rng.uniform(-20, 60), 3) for _ in range(3)]
        occ, b = round(rng.uniform(0.1, 1.0), 2), round(rng.choice([rng.uniform(2, 60), rng.uniform(2, 60), rng.uniform(100, 400), 0.0, 99.99, 100.0]), 2)
        rec = rng.choice(['ATOM  ', 'HETATM'])
        lab = ('%s%d' % (el.upper(), i + 1))[:4]
        lines.append('%s%5d %-4s %3s A%4d    %8.3f%8.3f%8.3f%6.2f%6.2f          %2s' % (rec, i + 1, lab, 'RES', i + 1, xyz[0], xyz[1], xyz[2], occ, b, el.upper().rjust(2)))
        atoms.append({'label': lab, 'el': el.upper(), 'xyz': xyz, 'occ': occ, 'b': b})
    return '\n'.join(lines) + '\nEND\n', {'name': name, 'symbol': sym, 'cell': cell, 'scale': Sr.tolist(), 'scale_u': u, 'atoms': atoms}


def check_pdb(text, exp):
    path = _write('structure.pdb', text)
    try:
        bl = structure.build_atomlist()
        bl.PDBread(path)
    except Exception as e:
        return 'PDBread raised %r for symbol %r' % (e, exp['symbol'])
    al = bl.atomlist
    if any(abs(a - b) > 1e-9 for a, b in zip(al.cell, exp['cell'])):
        return 'cell %r' % (al.cell,)
    try:
        got_no = sgmod.sg(sgname=al.sgname).no
    except Exception as e:
        return 'space group %r (from %r) is unknown' % (al.sgname, exp['symbol'])
    if got_no != sgmod.sg(sgname=exp['name']).no:
        return 'space group symbol %r read as %r = No. %d, file states %s' % (exp['symbol'], al.sgname, got_no, exp['name'])
    if len(al.atom) != len(exp['atoms']):
        return 'number of atoms'
    S = np.array(exp['scale'])
    for got, a in zip(al.atom, exp['atoms']):
        if got.label != a['label'] or got.atomtype != a['el']:
            return 'label/type %r/%r expected %r/%r' % (got.label, got.atomtype, a['label'], a['el'])
        pos = S.dot(a['xyz']) + np.array(exp.get('scale_u', [0, 0, 0]))
        if np.abs(np.array(got.pos) - pos).max() > 1e-9:
            return 'fractional coordinates of %s' % a['label']
        if abs(got.occ - a['occ']) > 1e-9 or got.adp_type != 'Uiso' or abs(got.adp - a['b'] / EIGHT_PI2) > 1e-9:
            return 'occupancy / B of %s' % a['label']
        if got.symmulti != exact_orbit(exp['name'], pos):
            return 'multiplicity of %s: %r' % (a['label'], got.symmulti)
    return None


NAMES = names_230()
# PDB files use H (not R) for hexagonal axes of rhombohedral groups and have no way to state an origin choice: use P/C/I/F groups
PDBNAMES = [nm for nm in NAMES if nm[0] != 'R' and pdb_symbol(nm) is not None]
fails = []
n = 0
for i in range(n_files):
    if i % 2 == 0:
        text, exp = gen_cif()
        err = check_cif(text, exp)
        kind = 'cif'
    else:
        text, exp = gen_pdb()
        err = check_pdb(text, exp)
        kind = 'pdb'
    n += 1
    if err:
        fails.append({'kind': kind, 'problem': err, 'group': exp['name'], 'symbol_in_file': exp.get('symbol'), 'file': text[:1500]})
print(json.dumps({'n': n, 'failures': fails[:20], 'n_failures': len(fails),
                  'failing_symbols': sorted({f.get('symbol_in_file') or f['group'] for f in fails})[:60]}))
