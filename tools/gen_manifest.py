#!/usr/bin/env python3
"""regenerate MANIFEST.json from the table below (keeps it schema-valid at all times)"""
import json, os
HERE = os.path.dirname(os.path.dirname(os.path.abspath(__file__)))
ALL = ['C%02d' % i for i in range(1, 21)]
CLAIMED = json.load(open(os.path.join(HERE, 'tools', 'claims.json')))
checks = []
for pid in ALL:
    if pid not in CLAIMED:
        continue
    c = CLAIMED[pid]
    checks.append({
        'property_id': pid,
        'quick_cmd': './check %s quick' % pid,
        'thorough_cmd': './check %s thorough' % pid,
        'evidence_file': 'evidence/%s.json' % pid,
        'replay_cmd_template': './check %s --replay {path}' % pid,
        'engine': 'pyvc',
        'level_claimed': {'category': c['category'], 'text': c['text'], 'design_ref': c.get('design_ref', 'DESIGN.md section 6 ' + pid)},
        'level_note': c['note'],
        'technique': c['technique'],
    })
na = json.load(open(os.path.join(HERE, 'tools', 'not_applicable.json')))
man = {
    'version': 1,
    'setup_cmd': './setup.sh',
    'hooks': {'guard': 'XFAB_VERIF', 'enable': 'none needed: contracts live in the sidecar /verif/contracts and the engine reads the AST of /repo (XFAB_VERIF is not read by any source line)',
              'baseline_off_cmd': 'cd /repo && /venv/bin/python -m pytest -ra -q -p no:cacheprovider --timeout=900 --continue-on-collection-errors',
              'source_commits': [], 'add_only': True},
    'engines': [{'name': 'pyvc', 'path': 'pyvc/', 'serves_properties': [c['property_id'] for c in checks],
                 'kind_free_text': 'contract-based deductive verifier for the Python subset xfab uses: sidecar contracts, real function text (ast-extracted every run) executed by CPython over symbolic values with callees replaced by their contracts, named obligations discharged by z3-checked polynomial certificates / z3 / cvc5 / exact ground evaluation; native replay of counter-models'}],
    'checks': checks,
    'not_applicable': [x for x in na if x['property_id'] not in CLAIMED],
    'notes': 'exit codes of ./check: 0 held, 1 violation (VIOLATION line), 2 undecided, 3 checker error. See DESIGN.md.',
}
json.dump(man, open(os.path.join(HERE, 'MANIFEST.json'), 'w'), indent=1)
print('claimed', [c['property_id'] for c in checks], 'n/a', [x['property_id'] for x in man['not_applicable']])
