#!/bin/bash
# tools/mutrun.sh <prop> <file-relative-to-repo> <python-regex> <replacement> [count]
# copy /repo to a scratch dir, apply one textual mutation, run the quick check against it, clean up
set -e
PROP=$1; FILE=$2; PAT=$3; REP=$4; CNT=${5:-1}
D=$(mktemp -d /dev/shm/xfabmut.XXXXXX)
rsync -a --exclude .git /repo/ $D/
python3 - "$D/$FILE" "$PAT" "$REP" "$CNT" <<'PY'
import re,sys
p,pat,rep,cnt=sys.argv[1:]
s=open(p).read()
s2,n=re.subn(pat,rep,s,count=int(cnt))
assert n>0,"pattern not found"
open(p,'w').write(s2)
print("mutated",n,"site(s)")
PY
cd /verif
XFAB_SRC=$D PYVC_SAVE_HINTS=0 VERIF_NO_EVIDENCE=1 ./check $PROP quick | grep -E "^(VIOLATION|UNDECIDED|CHECKER|ENGINE|SUMMARY|KNOWN)" | cut -c1-200 | head -${MUT_LINES:-8}
rm -rf $D
