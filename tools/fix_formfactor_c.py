#!/usr/bin/env python3
"""restore the lost first character of the constant term c in atomlib.formfactor (unique completion by f(0)=Z)"""
import re, sys
from fractions import Fraction
Zs = "H HE LI BE B C N O F NE NA MG AL SI P S CL AR K CA SC TI V CR MN FE CO NI CU ZN GA GE AS SE BR KR RB SR Y ZR NB MO TC RU RH PD AG CD IN SN SB TE I XE CS BA LA CE PR ND PM SM EU GD TB DY HO ER TM YB LU HF TA W RE OS IR PT AU HG TL PB BI PO AT RN FR RA AC TH PA U NP PU".split()
Z = {s: i + 1 for i, s in enumerate(Zs)}
path = sys.argv[1]
txt = open(path).read()
pat = re.compile(r"'([A-Z]+)'\s*:\s*\[([^\]]*)\]", re.S)
out = txt
n_fixed = 0
for m in pat.finditer(txt):
    el, body = m.group(1), m.group(2)
    toks = [t.strip() for t in body.replace('\n', ' ').split(',')]
    vals = [Fraction(t) for t in toks]
    f0 = sum(vals[:4]) + vals[8]
    if abs(f0 - Z[el]) <= Fraction(1, 10):
        continue
    ctok = toks[8]
    cands = []
    for ch in '-123456789':
        try:
            c2 = Fraction(ch + ctok)
        except Exception:
            continue
        if abs(sum(vals[:4]) + c2 - Z[el]) <= Fraction(1, 10):
            cands.append(ch + ctok)
    assert len(cands) == 1, (el, ctok, cands)
    newbody = body[:body.rindex(ctok)] + cands[0] + body[body.rindex(ctok) + len(ctok):]
    out = out.replace(m.group(0), m.group(0).replace(body, newbody))
    n_fixed += 1
open(path, 'w').write(out)
print('restored', n_fixed, 'constant terms')
