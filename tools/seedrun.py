#!/usr/bin/env python3
"""tools/seedrun.py <prop> <seed dir> <seed id> [--keep]
Confirm a seeded breaking change independently (tests pass, demo fails with / passes without), run the
property's quick check against a scratch copy carrying the change, and file it under /verif/seeded/<id>/."""
import json, os, shutil, subprocess, sys, tempfile, time

prop, sdir, sid = sys.argv[1:4]
sdir = os.path.abspath(sdir)
patch = os.path.join(sdir, 'patch.diff')
demo = os.path.join(sdir, 'demo.py')
notes = os.path.join(sdir, 'notes.md')
D = tempfile.mkdtemp(prefix='xfabseed.', dir='/dev/shm')
subprocess.check_call(['rsync', '-a', '--exclude', '.git', '--exclude', 'SEED', '/repo/', D + '/'])
env = dict(os.environ, PYTHONPATH=D)
meta = {'id': sid, 'property': prop, 'ran': []}


def run(cmd, cwd=D, extra=None, timeout=3000):
    e = dict(env)
    if extra:
        e.update(extra)
    t0 = time.time()
    p = subprocess.run(cmd, cwd=cwd, env=e, capture_output=True, text=True, timeout=timeout)
    meta['ran'].append({'cmd': ' '.join(cmd), 'exit': p.returncode, 'seconds': round(time.time() - t0, 1)})
    return p

# unchanged copy: demo must pass
p0 = run(['/venv/bin/python', demo])
meta['demo_exit_without_change'] = p0.returncode
# apply
pa = subprocess.run(['patch', '-p1', '-i', patch], cwd=D, capture_output=True, text=True)
meta['patch_applies'] = pa.returncode == 0
if pa.returncode != 0:
    print('PATCH FAILED', pa.stdout[-500:], pa.stderr[-500:])
pt = run(['/venv/bin/python', '-m', 'pytest', '-q', '-p', 'no:cacheprovider', '-x'])
meta['tests_with_change'] = pt.stdout.strip().splitlines()[-1] if pt.stdout.strip() else pt.stderr[-200:]
p1 = run(['/venv/bin/python', demo])
meta['demo_exit_with_change'] = p1.returncode
meta['demo_output_with_change'] = (p1.stdout + p1.stderr)[-600:]
confirmed = meta['patch_applies'] and p0.returncode == 0 and p1.returncode != 0 and ' passed' in meta['tests_with_change'] and 'failed' not in meta['tests_with_change']
meta['confirmed'] = confirmed
# my check
pc = run(['./check', prop, 'quick'], cwd='/verif', extra={'XFAB_SRC': D, 'PYTHONPATH': '/verif:' + D, 'PYVC_SAVE_HINTS': '0', 'VERIF_NO_EVIDENCE': '1'})
lines = [l for l in pc.stdout.splitlines() if l.startswith(('VIOLATION', 'UNDECIDED', 'CHECKER', 'ENGINE', 'SUMMARY', 'KNOWN'))]
meta['check_exit'] = pc.returncode
meta['check_lines'] = [l[:300] for l in lines[:12]]
meta['detected'] = pc.returncode == 1 and any(l.startswith('VIOLATION') for l in lines)
if os.path.exists(notes):
    meta['needs_to_manifest'] = open(notes).read()[:3000]
else:
    try:
        meta['needs_to_manifest'] = json.load(open(os.path.join('/verif/seeded', sid, 'meta.json'))).get('needs_to_manifest', '')
    except Exception:
        pass
shutil.rmtree(D)
out = os.path.join('/verif/seeded', sid)
if confirmed:
    os.makedirs(out, exist_ok=True)
    if os.path.realpath(sdir) != os.path.realpath(out):
        shutil.copy(patch, os.path.join(out, 'patch.diff'))
        shutil.copy(demo, os.path.join(out, 'demo.py'))
    json.dump(meta, open(os.path.join(out, 'meta.json'), 'w'), indent=1)
print(json.dumps({k: meta[k] for k in ('id', 'confirmed', 'tests_with_change', 'demo_exit_without_change', 'demo_exit_with_change', 'check_exit', 'detected')}))
for l in meta['check_lines'][:6]:
    print('   ', l[:200])
