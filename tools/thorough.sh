#!/bin/bash
# tools/thorough.sh [ids...] -- every thorough check on the unchanged tree (log /tmp/thorough.log)
cd /verif
ids="${@:-C04 C11 C16 C19 C18 C17 C10 C13 C20 C15 C01 C03 C09 C06 C05 C08 C07 C02 C14 C12}"
: > /tmp/thorough.log
for p in $ids; do
  ./check $p thorough > /tmp/thorough_$p.out 2>&1; echo "THOROUGH $p exit=$? $(grep '^SUMMARY' /tmp/thorough_$p.out | cut -c1-170)" >> /tmp/thorough.log
done
echo DONE >> /tmp/thorough.log
