#!/usr/bin/env python3
"""tools/benignrun.py <patch.diff> <prop> [<prop> ...]
Apply a behaviour-preserving change to a scratch copy of /repo, confirm the tests pass, run the quick checks of the
given properties against it and report the exit codes (0 expected; 2 = proof no longer goes through; 1 = false alarm)."""
import json, os, shutil, subprocess, sys, tempfile

patch = os.path.abspath(sys.argv[1])
props = sys.argv[2:]
D = tempfile.mkdtemp(prefix='xfabbenign.', dir='/dev/shm')
subprocess.check_call(['rsync', '-a', '--exclude', '.git', '--exclude', 'SEED', '--exclude', 'BENIGN', '/repo/', D + '/'])
pa = subprocess.run(['patch', '-p1', '-i', patch], cwd=D, capture_output=True, text=True)
out = {'patch': patch, 'applies': pa.returncode == 0, 'checks': {}}
if pa.returncode == 0:
    pt = subprocess.run(['/venv/bin/python', '-m', 'pytest', '-q', '-p', 'no:cacheprovider', '-x'], cwd=D, env=dict(os.environ, PYTHONPATH=D),
                        capture_output=True, text=True)
    out['tests'] = pt.stdout.strip().splitlines()[-1] if pt.stdout.strip() else pt.stderr[-200:]
    for p in props:
        pc = subprocess.run(['./check', p, 'quick'], cwd='/verif', capture_output=True, text=True,
                            env=dict(os.environ, XFAB_SRC=D, PYTHONPATH='/verif:' + D, PYVC_SAVE_HINTS='0', VERIF_NO_EVIDENCE='1'))
        lines = [l[:260] for l in pc.stdout.splitlines() if l.startswith(('VIOLATION', 'UNDECIDED', 'CHECKER', 'ENGINE'))]
        out['checks'][p] = {'exit': pc.returncode, 'lines': lines[:8]}
shutil.rmtree(D)
print(json.dumps(out, indent=1))
