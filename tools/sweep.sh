#!/bin/bash
# tools/sweep.sh [ids...] -- every quick check on the unchanged tree, then every seeded change (from /verif/seeded)
cd /verif
MODE=${SWEEP_MODE:-all}
ids="${@:-C01 C02 C03 C04 C05 C06 C07 C08 C09 C10 C11 C12 C13 C14 C15 C16 C17 C18 C19 C20}"
: > /tmp/sweep.log
[ "$MODE" = seeds ] || for p in $ids; do
  ./check $p quick ${SWEEP_BASELINE:+--write-baseline} > /tmp/sweep_$p.out 2>&1; echo "BASE $p exit=$? $(grep '^SUMMARY' /tmp/sweep_$p.out | cut -c1-160)" >> /tmp/sweep.log
done
[ "$MODE" = base ] || for p in $ids; do
  for d in seeded/${p}_s*; do
    [ -d "$d" ] || continue
    r=$(python3 tools/seedrun.py $p $d $(basename $d) 2>&1 | head -1)
    echo "SEED $(basename $d) $r" | cut -c1-260 >> /tmp/sweep.log
  done
done
echo DONE >> /tmp/sweep.log
