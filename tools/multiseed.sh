#!/bin/bash
# tools/multiseed.sh "<seeds>" [ids...] -- quick checks on the unchanged tree under several seeds (no evidence written)
cd /verif
seeds="$1"; shift
ids="${@:-C01 C02 C03 C04 C05 C06 C07 C08 C09 C10 C11 C12 C13 C14 C15 C16 C17 C18 C19 C20}"
: > /tmp/multiseed.log
for sd in $seeds; do
  for p in $ids; do
    VERIF_SEED=$sd VERIF_NO_EVIDENCE=1 ./check $p quick > /tmp/ms_${p}_$sd.out 2>&1
    echo "seed=$sd $p exit=$? $(grep -c '^VIOLATION' /tmp/ms_${p}_$sd.out) viol $(grep '^SUMMARY' /tmp/ms_${p}_$sd.out | sed 's/.*wall=//')" >> /tmp/multiseed.log
  done
done
echo DONE >> /tmp/multiseed.log
