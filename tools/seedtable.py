#!/usr/bin/env python3
"""print the markdown table of /verif/seeded for DESIGN.md section 11"""
import json, os, re
DESC = {
 'C01_s1': 'laue.form_a_mat_inv hand-written inverse drops a cross term',
 'C01_s2': 'tools.cell_invert arcsin branch returns the supplement for angles > 161.8 deg',
 'C01_s3': 'laue.sintl fast path for "orthogonal" cells with a 0.01 deg tolerance',
 'C01_s4': 'tools.b_to_cell scales the caller\'s B in place (`B /= 2 pi`)',
 'C02_s1': 'laue.ub_to_u_b via Cholesky of the Gram matrix (loses accuracy for cond 1e4..1e6)',
 'C02_s2': 'tools.ubi_to_u divides the caller\'s UBI in place',
 'C03_s1': 'laue.u_to_euler rounds U22 before arccos',
 'C03_s2': 'tools.quart_to_omega closed-form axis with a missing cosine',
 'C03_s3': 'laue.form_omega_mat_general reuses the previous call\'s tilt matrix when allclose',
 'C03_s4': 'tools.u_to_rod floors the denominator near 180 deg',
 'C04_s1': 'one translation of Sg167 rhombohedral',
 'C04_s2': 'case-sensitive R...R suffix test in sg lookup',
 'C05_s1': 'packed integer de-dup key in genhkl_all (collides for large indices)',
 'C05_s2': 'off-by-one in a refactored sysabs permutation loop',
 'C05_s3': 'Laue rotation list of genhkl_all cached by space-group number only (R groups, two settings)',
 'C05_s4': 'laue.genhkl_all "vectorised" orbit expansion computes R.h instead of h.R',
 'C06_s1': 'laue.genhkl_base outer cut-off `>=` loses reflections exactly on sintlmax',
 'C06_s2': 'tools.sysabs tests the same cyclic permutation twice (n.roll slip)',
 'C07_s1': 'beta tensor carried with R.beta.inv(R) instead of R.beta.R^T',
 'C07_s2': 'Im(F) zeroed when the group contains -I and disper is None (centre not at origin)',
 'C07_s3': 'Im(F) set to 0 when -I is among the rotations and no atom has dispersion terms',
 'C07_s4': 'stl from the reciprocal cell with mispaired cross-term cosines',
 'C08_s1': 'dispersion terms carried over to the next atom when its table entry is None', 'C08_s2': 'anisotropic Debye-Waller factor rotates h with R instead of R^T',
 'C09_s1': 'tilt order swapped in tools.form_omega_mat_general',
 'C09_s2': 'one missed g_w -> g_w_n rename in laue.find_omega_quart',
 'C09_s3': 'find_omega_wedge accepts |cos eta| up to 1+1e-4 and clips',
 'C09_s4': 'find_omega_wedge normalises the caller\'s g in place',
 'C10_s1': 'row/column slip in det_coor', 'C10_s2': 'typo in detect_tilt',
 'C10_s3': '"untilted detector" fast path with a tolerance on the trace',
 'C10_s4': 'shared helper scales the caller\'s g-vector in place',
 'C11_s1': 'per-axis clip bound', 'C11_s2': 'validation moved into a helper that checks rows only',
 'C11_s3': 'orientation terms cached without the detector size',
 'C11_s4': 'detyz_to_xy rewritten through the inverse orientation without permuting the sizes',
 'C12_s1': 'tetragonal rotations() no longer inverted (two 4-fold operators)', 'C12_s2': 'Umis clips the cosine only from above',
 'C12_s3': 'permutations() cached and transposed in place by rotations()',
 'C12_s4': 'Umis casts the operator table to the dtype of the inputs (integer-typed U)',
 'C13_s1': 'laue.ubi_to_u_and_eps passes U through rod_to_u(u_to_rod(U))', 'C13_s2': 'tools.epsilon_to_b doubles the shear components of the caller\'s strain array in place',
 'C14_s1': 'tools.u_to_euler tests gimbal lock on the cosine', 'C14_s2': 'laue.sysabs loses the rhombohedral permutation',
 'C15_s1': 'multiplicity wraps then compares', 'C15_s2': 'swapped translations in Sg152',
 'C16_s1': 'one coefficient of boron', 'C16_s2': 'clamp of s^2 at the s-limit',
 'C16_s3': 'constant term truncated for integer-typed stl (full_like)', 'C16_s4': 'array results handed out from a reused work array',
 'C17_s1': 'old-spelling multiplicity key of CIFread no longer honoured', 'C17_s2': 'PDB SCALE translation column dropped',
 'C18_s1': 'tools.reduce_cell enumerates only the half space i >= 0', 'C18_s2': 'laue.reduce_cell index grid cached regardless of uvw',
 'C19_s1': 'integer detection via isdigit on load', 'C19_s2': 'update_yourself walks par_objs instead of the value dictionary',
 'C20_s1': '`==` instead of `is` in the switch setter', 'C20_s2': 'relative instead of absolute tolerance',
 'C20_s3': 'laue gets its own copy of the switch', 'C20_s4': 'determinant test via slogdet drops the sign',
 'C02_s3': 'tools.ubi_to_u takes B from a cache keyed by the cell rounded to 4 decimals',
 'C02_s4': 'laue.ub_to_u_b fast path for "already upper triangular" input skips the sign normalisation',
 'C04_s3': 'sg table cache keyed by class name only (R groups in two settings)',
 'C04_s4': 'name normalisation removes blanks only (tabs, newlines no longer)',
 'C06_s3': 'one digit of the -3m1 segment table in laue.genhkl_base',
 'C06_s4': 'final sort of genhkl_base on sin(theta)/lambda rounded to 1e-5',
 'C08_s3': 'StructureFactor computes stl from a cached reciprocal cell with mispaired cross terms',
 'C08_s4': 'StructureFactor sums the nuniq primitive operators only (centring copies dropped)',
 'C13_s3': 'epsilon_to_b builds its work array from the strain (integer strain truncates)',
 'C13_s4': 'laue: unstrained B memoised under the cell rounded to 3 decimals',
 'C14_s3': 'laue.form_b_mat one-entry memo compared with allclose',
 'C14_s4': 'laue.find_omega_quart builds the normal from Ry.Rx instead of Rx.Ry',
 'C15_s3': 'sg objects cached in multiplicity under (class name, cell_choice) -- "r" names collide',
 'C15_s4': 'lattice-vector test of multiplicity replaced by numpy.allclose defaults',
 'C17_s3': 'PDB temperature factor read from columns 62-66 (B >= 100 loses its first digit)',
 'C17_s4': 'CIFopen caches the parsed file under (path, size)',
 'C18_s3': 'tools.reduce_cell vectorised with cos(beta)/cos(gamma) swapped in the sorting metric',
 'C18_s4': 'laue.reduce_cell skips every candidate as short as the first vector when looking for the second',
 'C19_s3': 'saveparameters trims floats to 16 significant digits',
 'C19_s4': 'set_varylist stores the names in registration order',
 'C02_s5': 'ub_to_u_b vectorised sign fix derives the third flip from the first two (wrong when LAPACK skips a reflector: rotations about x or z)',
 'C09_s5': 'tools.find_omega_quart closed-form axis normal without the cos(wy) factor (both tilts non-zero)',
 'C13_s5': 'laue.epsilon_to_b back-substitution as a loop visiting (0,2) before (1,2) (triclinic / sheared hexagonal cells)',
 'C19_s5': 'update_yourself skips values that compare == (0.0 vs -0.0, 2048 vs 2048.0 never stored)',
 'C06_s5': 'sintlmin bound made inclusive in genhkl_base / genhkl (bound bit-equal to a reflection)',
 'C17_s5': 'CIFread pairs the k-th anisotropic atom with the k-th aniso row (aniso loop in another order)',
 'C15_s5': 'multiplicity image buffer inherits the dtype of the position (integer coordinates truncate translations)',
 'C18_s5': 'reduce_cell skips index triplets with abs(i)+abs(j)+abs(k) > uvw (skewed cells needing e.g. (2,1,1))',
}
rows = []
for sid in sorted(os.listdir('/verif/seeded')):
    mp = os.path.join('/verif/seeded', sid, 'meta.json')
    if not os.path.exists(mp):
        continue
    m = json.load(open(mp))
    by = ''
    for l in m.get('check_lines', []):
        mm = re.match(r'VIOLATION property=\S+ replay=replays/[^/]+/(.*?)\.json', l)
        if mm:
            by = mm.group(1)
            break
    rows.append('| %s | %s | %s |' % (sid, DESC.get(sid, ''), ('`%s`' % by[:110]) if m.get('detected') else '**missed** (exit %s)' % m.get('check_exit')))
print('| seed | change | caught by (first VIOLATION) |\n|---|---|---|')
print('\n'.join(rows))
