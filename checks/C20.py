"""C20 -- input checks reject exactly the invalid inputs, and only while switched on"""
import ast
import math

import numpy as np

from .common import *
from pyvc.ground import GroundUnit
from pyvc.source import Source
from pyvc.engine import random_rotation

GUARDED = {
    'tools': {'u_to_euler': '_check_rotation_matrix', 'u_to_rod': '_check_rotation_matrix',
              'u_to_ubi': '_check_rotation_matrix', 'ubi_to_u': '_check_ubi_matrix',
              'ubi_to_u_and_eps': '_check_rotation_matrix', 'euler_to_u': '_check_euler_angles',
              'ub_to_u_b': '_check_rotation_matrix'},
    'symmetry': {'Umis': '_check_rotation_matrix'},
}
GUARDED['laue'] = dict(GUARDED['tools'])


def switch_obligations(tier, seed):
    """_checkState: executed on representative values of every kind (ground); per-operation contract:
    a valid assignment sets the state, any other value raises ValueError and leaves it unchanged;
    hence after any sequence the state is the last valid value"""
    import importlib
    checks = importlib.import_module('xfab.checks')
    src = Source()
    cls = src.classes('checks')['_checkState']
    names = [n.name for n in cls.body if isinstance(n, ast.FunctionDef)]
    yield 'checks._checkState.members', sorted(set(names)) == ['__init__', 'activated'], 'members: %r' % names
    vals = [True, False, 1, 0, None, 'True', 'False', '', 1.0, 0.0, [], [True], np.bool_(True), np.bool_(False),
            np.int64(1), object(), (True,), 2, -1]
    for start in (True, False):
        for v in vals:
            st = checks._checkState()
            st._run_checks = start
            try:
                st.activated = v
                raised = False
            except ValueError:
                raised = True
            tag = 'checks._checkState.setter[start=%s,value=%r]' % (start, v if not isinstance(v, object().__class__) or type(v) is not object else 'object()')
            if v is True or v is False:
                yield tag + '.valid_value_sets_state', (not raised) and st._run_checks is v and st.activated is (v and __debug__), \
                    'state %r after assigning %r' % (st._run_checks, v)
            else:
                yield tag + '.invalid_value_raises_and_keeps_state', raised and st._run_checks is start and st.activated == start, \
                    'raised=%r state=%r' % (raised, st._run_checks)
    st = checks._checkState()
    yield 'checks._checkState.default_activated', st.activated is True, 'default %r' % st.activated
    import xfab
    yield 'xfab.CHECKS_is_a_checkState', isinstance(xfab.CHECKS, checks._checkState), repr(type(xfab.CHECKS))


def guard_sites(tier, seed):
    """syntactic obligation: every guarded API calls its checker under `if CHECKS.activated:` and nowhere else"""
    src = Source()
    for module, table in GUARDED.items():
        for fname, checker in table.items():
            fd = src.funcdef(module, fname)
            guarded_calls, unguarded_calls = [], []

            class V(ast.NodeVisitor):
                def __init__(self):
                    self.guard = 0

                def visit_If(self, node):
                    t = ast.unparse(node.test)
                    if t == 'CHECKS.activated':
                        self.guard += 1
                        for b in node.body:
                            self.visit(b)
                        self.guard -= 1
                        for b in node.orelse:
                            self.visit(b)
                    else:
                        self.generic_visit(node)

                def visit_Call(self, node):
                    t = ast.unparse(node.func)
                    if t.startswith('checks.'):
                        (guarded_calls if self.guard else unguarded_calls).append(t)
                    self.generic_visit(node)
            V().visit(fd)
            tag = '%s.%s.guard' % (module, fname)
            yield tag + '.calls_its_checker_under_the_switch', ('checks.' + checker) in guarded_calls, \
                'guarded calls: %r' % guarded_calls
            yield tag + '.no_unguarded_check', not unguarded_calls, 'unguarded: %r' % unguarded_calls


def _apis(module):
    import importlib
    m = importlib.import_module('xfab.' + module)
    cell = [4.1, 5.2, 6.3, 85.0, 95.0, 100.0]
    if module == 'symmetry':
        return {'Umis': lambda U: m.Umis(U, np.array(random_rotation(__import__('random').Random(3))), 7)}
    return {
        'u_to_euler': lambda U: m.u_to_euler(U), 'u_to_rod': lambda U: m.u_to_rod(U),
        'u_to_ubi': lambda U: m.u_to_ubi(U, cell),
        'ub_to_u_b': lambda U: m.ub_to_u_b(np.dot(U, m.form_b_mat(cell))),
        'ubi_to_u_and_eps': lambda U: m.ubi_to_u_and_eps(np.linalg.inv(np.dot(U, m.form_b_mat(cell) / (2 * np.pi if module == 'tools' else 1.0))), cell),
    }


_MSGS = []


def _check_messages():
    """the messages of the ValueErrors raised in xfab/checks.py (read from the current source)"""
    if not _MSGS:
        import ast
        from pyvc.source import Source
        for node in ast.walk(Source().module('checks')):
            if isinstance(node, ast.Raise) and isinstance(node.exc, ast.Call) and node.exc.args:
                a = node.exc.args[0]
                for c in ast.walk(a):
                    if isinstance(c, ast.Constant) and isinstance(c.value, str) and len(c.value) > 8:
                        _MSGS.append(c.value)
                        break
    return _MSGS


def bounded_guards(module):
    """native: with the switch on, clearly invalid orientation matrices are rejected and clearly valid ones
    (float32-rounded rotations, perturbations < 1e-7) are accepted; with it off nothing is rejected and valid
    inputs give the same values"""
    import xfab
    apis = _apis(module)

    def f(rng):
        R = np.array(random_rotation(rng))
        kind = rng.choice(['float32', 'tiny', 'exact'])
        if kind == 'float32':
            V = R.astype(np.float32).astype(np.float64)
        elif kind == 'tiny':
            V = R + rng.uniform(-9e-8, 9e-8) * np.eye(3)[rng.randrange(3)][:, None] * np.eye(3)[rng.randrange(3)][None, :]
        else:
            V = R
        B_ = R.copy()
        bad_kind = rng.choice(['entry', 'entry', 'mirror', 'negated', 'axis_swap'])
        if bad_kind == 'entry':
            B_[rng.randrange(3), rng.randrange(3)] += rng.choice([-1, 1]) * rng.uniform(1e-3, 1.0)
        elif bad_kind == 'mirror':          # orthonormal but improper: only the determinant test can reject it
            B_ = R.dot(np.diag([[1, 1, -1], [1, -1, 1], [-1, 1, 1]][rng.randrange(3)]))
        elif bad_kind == 'negated':
            B_ = -R
        else:
            B_ = R[:, [[1, 0, 2], [0, 2, 1], [2, 1, 0]][rng.randrange(3)]]
        name = rng.choice(sorted(apis))
        api = apis[name]
        try:
            xfab.CHECKS.activated = True
            try:
                on = api(V)
            except ValueError as e:
                if not any(str(e).startswith(m_[:25]) for m_ in _check_messages()):
                    # not an input check: u_to_rod's own domain limit at half turns, u_to_euler's arccos of 1+1e-7 at
                    # gimbal lock for a perturbed matrix, ... (the business of C03, which quantifies over exact rotations)
                    return None
                return {'api': module + '.' + name, 'kind': kind, 'input': V.tolist(), 'problem': 'valid input rejected: %s' % e}
            if name not in ('ub_to_u_b', 'ubi_to_u_and_eps'):
                try:
                    api(B_)
                    return {'api': module + '.' + name, 'input': B_.tolist(), 'problem': 'clearly invalid input accepted'}
                except ValueError:
                    pass
            xfab.CHECKS.activated = False
            try:
                off = api(V)
                api(B_)
            except ValueError as e:
                # only the input checks' own errors are switched off; a function may still fail on garbage for its own reasons
                if any(str(e).startswith(m_[:25]) for m_ in _check_messages()):
                    return {'api': module + '.' + name, 'problem': 'input check raised with the switch off: %s' % e}
                off = on
            a = np.concatenate([np.ravel(np.asarray(x, float)) for x in (on if isinstance(on, tuple) else (on,))])
            b = np.concatenate([np.ravel(np.asarray(x, float)) for x in (off if isinstance(off, tuple) else (off,))])
            if a.shape != b.shape or not np.array_equal(a, b, equal_nan=True):
                return {'api': module + '.' + name, 'problem': 'different values with the switch off'}
        finally:
            xfab.CHECKS.activated = True
    return f


def units(tier):
    us = [GroundUnit('checks.switch', switch_obligations, [{'module': 'checks', 'name': '_checkState'}]),
          GroundUnit('guards.syntactic', guard_sites),
          FuncUnit('checks', '_check_rotation_matrix#rejects_invalid'),
          FuncUnit('checks', '_check_rotation_matrix#never_rejects_valid'),
          FuncUnit('checks', '_check_euler_angles'), FuncUnit('checks', '_check_ubi_matrix')]
    for m in ('tools', 'laue', 'symmetry'):
        us.append(BoundedUnit(m + '.guarded_apis', bounded_guards(m), 600, 20000,
                              'guarded APIs of xfab.%s: switch on -> clearly invalid rejected, clearly valid (float32 / <1e-7) '
                              'accepted; switch off -> nothing rejected, same values' % m))
    return us


def main(tier, seed, write_baseline=False):
    return Rn.run_property('C20', units(tier), tier, seed, level='proof',
                           assumptions=COMMON + ['numpy.allclose(a, b, rtol, atol) := all |a-b| <= atol + rtol*|b| (assumed contract)',
                                                 '__debug__ is True',
                                                 'never-rejects-valid is proved for U = R + E with R in SO(3) and |E_ij| <= 1e-7 (this contains every '
                                                 'float32-rounded rotation); the monomial bounds it uses are lemmas, each an obligation of its own',
                                                 'the switch is executed natively on representative values of every kind (bool, int, '
                                                 'None, str, float, list, numpy bool/int, object, tuple): `is` comparisons are not symbolic'],
                           trusted=TRUSTED, write_baseline=write_baseline)
