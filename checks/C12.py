"""C12 -- lattice symmetry operators form the right groups; misorientation respects them"""
import ast
import itertools
import math
from fractions import Fraction

import numpy as np
import z3

from .common import *
from pyvc import terms as T, npmodel as NPM, engine as E
from pyvc.runner import Unit
from pyvc.source import Source
from pyvc.terms import Ctx, set_ctx, Eq
from contracts.specs import *
from contracts import symmetry as CSY

ORDERS = {1: 1, 2: 2, 3: 4, 4: 8, 5: 6, 6: 12, 7: 24}
S3 = math.sqrt(3.0)
CANDS = {}
for a in (0, 1, -1, Fraction(1, 2), Fraction(-1, 2)):
    CANDS[float(a)] = (Fraction(a), Fraction(0))
for b in (Fraction(1, 2), Fraction(-1, 2)):
    CANDS[float(b) * S3] = (Fraction(0), b)


class Q3:
    """exact numbers a + b sqrt(3)"""
    __slots__ = ('a', 'b')

    def __init__(self, a, b=0):
        self.a, self.b = Fraction(a), Fraction(b)

    def __add__(self, o):
        o = o if isinstance(o, Q3) else Q3(o)
        return Q3(self.a + o.a, self.b + o.b)
    __radd__ = __add__

    def __sub__(self, o):
        o = o if isinstance(o, Q3) else Q3(o)
        return Q3(self.a - o.a, self.b - o.b)

    def __mul__(self, o):
        o = o if isinstance(o, Q3) else Q3(o)
        return Q3(self.a * o.a + 3 * self.b * o.b, self.a * o.b + self.b * o.a)
    __rmul__ = __mul__

    def __eq__(self, o):
        o = o if isinstance(o, Q3) else Q3(o)
        return self.a == o.a and self.b == o.b

    def __hash__(self):
        return hash((self.a, self.b))

    def key(self):
        return (self.a, self.b)


def q3mm(A, B_):
    return [[sum((A[i][k] * B_[k][j] for k in range(3)), Q3(0)) for j in range(3)] for i in range(3)]


def q3key(M):
    return tuple(x.key() for row in M for x in row)


def conforming_cell(system):
    a, b, c = T.real('a'), T.real('b'), T.real('c')
    if system == 1:
        al, be, ga = [T.angle(n, base=(Fraction(1, 180), 1)) for n in ('al', 'be', 'ga')]
        return [a, b, c, al, be, ga]
    if system == 2:
        return [a, b, c, 90.0, T.angle('be', base=(Fraction(1, 180), 1)), 90.0]
    if system == 3:
        return [a, b, c, 90.0, 90.0, 90.0]
    if system == 4:
        return [a, a, c, 90.0, 90.0, 90.0]
    if system in (5, 6):
        return [a, a, c, 90.0, 90.0, 120.0]
    return [a, a, a, 90.0, 90.0, 90.0]


class SymmetryUnit(Unit):
    kind = 'function'

    def label(self):
        return 'symmetry.permutations_rotations'

    def run(self, tier, seed):
        src = Source()
        eng = E.Engine(src)
        out = {'unit': self.label(), 'obligations': [], 'notes': [], 'validation': None, 'native': None, 'pending': [],
               'functions': [{'module': 'symmetry', 'name': f, 'sha': src.sha('symmetry', f)} for f in ('permutations', 'rotations')]}

        def ground(name, ok, detail=''):
            out['obligations'].append({'name': name, 'kind': 'ground', 'backend': 'ground-eval', 'seconds': 0.0,
                                       'status': 'discharged' if ok else 'refuted', 'detail': '' if ok else detail,
                                       'path': '', 'model': None, 'ground_witness': None if ok else detail})

        def ob(c, name, cond):
            n0 = len(c.obligations)
            set_ctx(c)
            try:
                c.oblige(name, cond)
            finally:
                set_ctx(None)
            for o in c.obligations[n0:]:
                out['pending'].append((o, None))
        self.exact = {}
        import importlib
        symmod = importlib.import_module('xfab.symmetry')
        for s in range(1, 8):
            c = Ctx()
            set_ctx(c)
            try:
                ns = eng.namespace('symmetry')
                ns['range'] = range
                ns['len'] = len
                fperm = eng.compile('symmetry', 'permutations', ns)
                ns['permutations'] = fperm
                frot = eng.compile('symmetry', 'rotations', ns)
                perm = fperm(s)
                rot = frot(s)
                n_pre = len(c.obligations)
            finally:
                set_ctx(None)
            for o in c.obligations:
                o.name = 'symmetry.rotations[system=%d].%s' % (s, o.name)
                out['pending'].append((o, None))
            P = [[[perm[i][r, cc] for cc in range(3)] for r in range(3)] for i in range(perm.shape[0])]
            tag = 'symmetry.permutations[system=%d]' % s
            ints = all(isinstance(x, int) for M in P for row in M for x in row)
            ground(tag + '.integer_entries', ints, 'non-integer entry')
            ground(tag + '.order', len(P) == ORDERS[s], 'order %d' % len(P))
            if ints:
                Pn = [np.array(M, dtype=int) for M in P]
                ground(tag + '.unimodular', all(abs(round(np.linalg.det(M))) == 1 for M in Pn), 'det != +-1')
                keys = {tuple(M.flatten()) for M in Pn}
                ground(tag + '.no_duplicates', len(keys) == len(Pn), 'duplicates')
                ground(tag + '.closed', all(tuple(A.dot(B_).flatten()) in keys for A in Pn for B_ in Pn), 'not closed under multiplication')
                ground(tag + '.identity_first', np.array_equal(Pn[0], np.eye(3, dtype=int)), 'perm[0] is not the identity')
            # rotations: every entry is proved equal to an exact number a + b sqrt(3); the rest is exact arithmetic
            tagr = 'symmetry.rotations[system=%d]' % s
            nat = symmod.rotations(s)
            ground(tagr + '.order', rot.shape[0] == ORDERS[s] and nat.shape == (ORDERS[s], 3, 3), 'order %r' % (rot.shape,))
            exact = []
            okall = True
            for i in range(rot.shape[0]):
                M = []
                for r in range(3):
                    row = []
                    for cc in range(3):
                        v = float(nat[i, r, cc])
                        cand = [q for f_, q in CANDS.items() if abs(f_ - v) < 1e-9]
                        if not cand:
                            ground(tagr + '.entry[%d][%d,%d].is_0_pm1_pm_half_pm_sqrt3_half' % (i, r, cc), False, 'value %r' % v)
                            okall = False
                            row.append(Q3(0))
                            continue
                        a, b = cand[0]
                        row.append(Q3(a, b))
                        e = rot[i][r, cc]
                        if T.symbolic(e):
                            set_ctx(c)
                            target = a + b * T.surd('sqrt3', 3) if b != 0 else a
                            set_ctx(None)
                            ob(c, tagr + '.entry[%d][%d,%d].equals_exact_value' % (i, r, cc), Eq(e, target))
                        else:
                            ground(tagr + '.entry[%d][%d,%d].equals_exact_value' % (i, r, cc), b == 0 and Fraction(e) == a, 'entry %r' % (e,))
                    M.append(row)
                exact.append(M)
            self.exact[s] = exact
            if not okall:
                continue
            I_ = [[Q3(1 if i == j else 0) for j in range(3)] for i in range(3)]
            keys = {q3key(M) for M in exact}
            ground(tagr + '.no_duplicates', len(keys) == len(exact), 'duplicates')
            ground(tagr + '.closed', all(q3key(q3mm(A, B_)) in keys for A in exact for B_ in exact), 'not closed')
            ground(tagr + '.orthogonal', all(q3key(q3mm([list(x) for x in zip(*M)], M)) == q3key(I_) for M in exact), "R'R != I")

            def det(M):
                return (M[0][0] * (M[1][1] * M[2][2] - M[1][2] * M[2][1]) - M[0][1] * (M[1][0] * M[2][2] - M[1][2] * M[2][0])
                        + M[0][2] * (M[1][0] * M[2][1] - M[1][1] * M[2][0]))
            ground(tagr + '.proper', all(det(M) == Q3(1) for M in exact), 'det != +1')
            ground(tagr + '.identity_first', q3key(exact[0]) == q3key(I_), 'rot[0] is not the identity')
            # pairing rot[i].B.perm[i] = B for every conforming cell (symbolic lengths / monoclinic angle)
            c2 = Ctx()
            set_ctx(c2)
            try:
                cell = conforming_cell(s)
                c2.assume(valid_cell(cell))
                Bm = Bspec(cell, 2 * T.pi())
                s3 = T.surd('sqrt3', 3)
                for i, M in enumerate(exact):
                    Rm = [[(x.a + x.b * s3) if x.b != 0 else (int(x.a) if x.a.denominator == 1 else x.a) for x in row] for row in M]
                    lhs = mm(mm(Rm, Bm), P[i])
                    n0 = len(c2.obligations)
                    for r in range(3):
                        for cc in range(3):
                            c2.oblige('symmetry.pairing[system=%d].rot_B_perm_is_B[%d][%d,%d]' % (s, i, r, cc), Eq(lhs[r][cc], Bm[r][cc]))
            finally:
                set_ctx(None)
            for o in c2.obligations:
                if not o.name.startswith('symmetry.'):
                    o.name = 'symmetry.pairing[system=%d].%s' % (s, o.name)
                out['pending'].append((o, None))
        # the cached module constant
        tree = src.module('symmetry')
        stmt = [ast.unparse(n) for n in tree.body if isinstance(n, ast.Assign) and getattr(n.targets[0], 'id', None) == 'ROTATIONS']
        ground('symmetry.ROTATIONS.is_rotations_of_1_to_7',
               stmt == ['ROTATIONS = [None] + [np.ascontiguousarray(rotations(i)) for i in range(1, 8)]'], 'module statement: %r' % stmt)
        # index permutations induced by the group structure (used by the invariance lemmas of Umis)
        for s, exact in self.exact.items():
            keys = [q3key(M) for M in exact]
            tagu = 'symmetry.Umis[system=%d]' % s
            okp = True
            for m in range(len(exact)):
                Tm = [list(x) for x in zip(*exact[m])]
                right = [q3key(q3mm(exact[k], Tm)) for k in range(len(exact))]       # rot[k].rot[m]'  (U2 -> U2.rot[m])
                left = [q3key(q3mm(exact[m], exact[k])) for k in range(len(exact))]   # rot[m].rot[k]   (U1 -> U1.rot[m])
                okp = okp and sorted(right) == sorted(keys) and sorted(left) == sorted(keys)
            inv = [q3key([list(x) for x in zip(*M)]) for M in exact]                 # swap: rot[k]'
            ground(tagu + '.equivalent_orientations_permute_the_operations', okp and sorted(inv) == sorted(keys),
                   'right/left translation or inversion is not a bijection of the operator list')
        return out


def lemma_trace_identities(ns, U1, U2, Q, Rk, Rm):
    """the algebra behind the invariances of the multiset of misorientation angles"""
    base = CSY.umis_length
    # U2 -> U2.Rm : the angle for operation k is the angle the original pair has for the operation rot[k].rot[m]'
    yield 'right_equivalent', Eq(base(U1, mm(U2, Rm), Rk), base(U1, U2, mm(Rk, tr(Rm))))
    # U1 -> U1.Rm : ... for the operation rot[m].rot[k]
    yield 'left_equivalent', Eq(base(mm(U1, Rm), U2, Rk), base(U1, U2, mm(Rm, Rk)))
    # swap: the angle for k is the angle of the original pair for rot[k]'
    yield 'swap', Eq(base(U2, U1, Rk), base(U1, U2, tr(Rk)))


def lemma_common_rotation(ns, U1, U2, Q, Rk):
    # common rotation Q: unchanged (needs only Q'Q = I)
    yield 'common_rotation', Eq(CSY.umis_length(mm(Q, U1), mm(Q, U2), Rk), CSY.umis_length(U1, U2, Rk))


def lemma_identical(ns, U1):
    # equal orientations, identity operation: cosine 1, i.e. angle 0
    I3_ = [[1, 0, 0], [0, 1, 0], [0, 0, 1]]
    yield 'identical_orientations_give_zero', Eq(CSY.umis_length(U1, U1, I3_), 1)


def _req_none(*a):
    return ()


def _req_Q(U1, U2, Q, Rk):
    QtQ = mm(tr(Q), Q)
    for i in range(3):
        for j in range(i, 3):
            yield 'Q_orthogonal[%d,%d]' % (i, j), Eq(QtQ[i][j], 1 if i == j else 0)


def _req_U1(U1):
    UtU = mm(tr(U1), U1)
    for i in range(3):
        for j in range(i, 3):
            yield 'U1_orthogonal[%d,%d]' % (i, j), Eq(UtU[i][j], 1 if i == j else 0)


def exact_rotations(system):
    """the operators of rotations(system) as (a, b) pairs meaning a + b sqrt(3); that the real code computes exactly
    these values is the obligation family symmetry.rotations[system].entry[..].equals_exact_value"""
    import importlib
    nat = importlib.import_module('xfab.symmetry').rotations(system)
    out = []
    for M in nat:
        rows = []
        for r in range(3):
            row = []
            for cc in range(3):
                cand = [q for f_, q in CANDS.items() if abs(f_ - float(M[r, cc])) < 1e-9]
                row.append(cand[0] if cand else (Fraction(0), Fraction(0)))
            rows.append(row)
        out.append(rows)
    return out


class _ExactRots(list):
    """list of 3x3 matrices whose entries materialise as symbolic a + b sqrt3 inside a symbolic context and as floats otherwise"""

    def __init__(self, pairs):
        self.pairs = pairs

    def mats(self):
        if T._CTX[0] is not None:
            s3 = T.surd('sqrt3', 3)
            conv = lambda a, b: (a + b * s3) if b != 0 else (int(a) if a.denominator == 1 else a)
        else:
            conv = lambda a, b: float(a) + float(b) * S3
        return [[[conv(a, b) for (a, b) in row] for row in M] for M in self.pairs]

    def __iter__(self):
        return iter(self.mats())

    def __len__(self):
        return len(self.pairs)


def register_umis():
    from pyvc.engine import register
    keys = []
    for s in range(1, 8):
        k = CSY.make_umis_contract(s, _ExactRots(exact_rotations(s)))
        register('symmetry')(k)
        keys.append(k.key)
    return keys


UMIS_KEYS = register_umis()


def bounded_umis_native():
    """the real Umis in floating point on the inputs the reals model cannot distinguish: identical orientations,
    symmetry-equivalent ones, exact and near half turns (cosines that round just outside [-1,1])"""
    import numpy as np
    from xfab import symmetry
    from pyvc.engine import random_rotation, _axis_angle

    def f(rng):
        cs = rng.randrange(1, 8)
        rots = np.asarray(symmetry.rotations(cs))
        U1 = np.array(random_rotation(rng))
        kind = rng.randrange(6)
        k = rng.randrange(len(rots))
        cubic = np.asarray(symmetry.rotations(7))
        if kind == 5:
            # orientations that are exactly integral, typed as integers (axis permutations written as literals)
            U1i = np.round(cubic[rng.randrange(24)]).astype(int)
            U2i = np.round(cubic[rng.randrange(24)]).astype(int)
            ti = np.asarray(symmetry.Umis(U1i, U2i, cs), float)
            tf = np.asarray(symmetry.Umis(U1i.astype(float), U2i.astype(float), cs), float)
            if ti.shape != tf.shape or not np.allclose(ti, tf, atol=1e-6, equal_nan=False):
                return {'crystal_system': cs, 'U1': U1i.tolist(), 'U2': U2i.tolist(), 'case': 'integer dtype',
                        'problem': 'Umis of integer-typed orientation matrices differs from the same matrices as floats',
                        'angles_int': ti[:, 1].tolist() if ti.ndim == 2 else None, 'angles_float': tf[:, 1].tolist()}
            U1, kind = U1i.astype(float), 3
        if kind == 0:
            U2 = U1.copy()
        elif kind == 1:
            U2 = U1.dot(rots[k])
        elif kind == 2:
            ax = rng.choice([(1, 0, 0), (0, 1, 0), (0, 0, 1), (1, 1, 0), (1, 1, 1), (rng.gauss(0, 1), rng.gauss(0, 1), rng.gauss(0, 1) + 1e-3)])
            U2 = U1.dot(np.array(_axis_angle(ax, np.pi - rng.choice([0.0, 0.0, 1e-9, 1e-7])))).dot(rots[k])
        else:
            U2 = np.array(random_rotation(rng))
        t = np.asarray(symmetry.Umis(U1, U2, cs), float)
        bad = {}
        if t.shape != (len(rots), 2):
            bad['shape'] = list(t.shape)
        elif not np.all(np.isfinite(t)):
            bad['non_finite_rows'] = int(np.sum(~np.isfinite(t[:, 1])))
        else:
            if t[:, 1].min() < 0 or t[:, 1].max() > 180:
                bad['angle_out_of_range'] = [float(t[:, 1].min()), float(t[:, 1].max())]
            if list(t[:, 0]) != list(range(len(rots))):
                bad['index_column'] = t[:, 0].tolist()
            if kind in (0, 1) and t[:, 1].min() > 1e-4:
                bad['no_zero_for_equivalent_orientations'] = float(t[:, 1].min())
            Q = np.array(random_rotation(rng))
            m = rng.randrange(len(rots))
            ref = np.sort(t[:, 1])
            for nm, (A, B_) in (('common_rotation', (Q.dot(U1), Q.dot(U2))), ('equivalent_U2', (U1, U2.dot(rots[m]))),
                                ('equivalent_U1', (U1.dot(rots[m]), U2)), ('swapped', (U2, U1))):
                o = np.asarray(symmetry.Umis(A, B_, cs), float)
                if o.shape != t.shape or not np.all(np.isfinite(o)) or np.abs(np.sort(o[:, 1]) - ref).max() > 1e-4:
                    bad['multiset_changes_under_' + nm] = True
        if bad:
            bad.update({'crystal_system': cs, 'U1': U1.tolist(), 'U2': U2.tolist(), 'case': ['identical', 'equivalent', 'half_turn', 'random', 'random', 'integer'][kind]})
            return bad
    return f


def units(tier):
    from pyvc.engine import Rot, Mat, Real
    us = [SymmetryUnit()]
    us.append(BoundedUnit('symmetry.Umis_on_float_rotations', bounded_umis_native(), 400, 10000,
                          'Umis in floating point: identical / symmetry-equivalent / half-turn / random pairs, all 7 systems: finite, '
                          'angles in [0,180], index column, zero present for equivalent pairs, multiset invariances to 1e-4 deg'))
    for k in UMIS_KEYS:
        us.append(FuncUnit('symmetry', k))
    M3 = Mat(3, 3, Real(-1, 1))
    us.append(LemmaUnit('misorientation_trace_identities', 'symmetry',
                        [('U1', M3), ('U2', M3), ('Q', M3), ('Rk', M3), ('Rm', M3)], _req_none, lemma_trace_identities))
    us.append(LemmaUnit('misorientation_common_rotation', 'symmetry', [('U1', M3), ('U2', M3), ('Q', Rot()), ('Rk', M3)],
                        _req_Q, lemma_common_rotation))
    us.append(LemmaUnit('misorientation_of_identical_orientations', 'symmetry', [('U1', Rot())], _req_U1, lemma_identical))
    return us


def main(tier, seed, write_baseline=False):
    return Rn.run_property('C12', units(tier), tier, seed, level='proof',
                           assumptions=COMMON + ['the entries of rotations(5), rotations(6) are proved equal (certificate modulo sqrt3^2 = 3) to exact numbers '
                                                 'a + b sqrt(3); group properties are then exact arithmetic in Q(sqrt 3)',
                                                 'multiset invariance of Umis = trace identities (proved for symbolic matrices) + the operator list is '
                                                 'permuted by left/right translation and inversion (exact, all pairs) + Umis contract (angle = arccos clip)'],
                           trusted=TRUSTED, write_baseline=write_baseline)
