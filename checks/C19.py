"""C19 -- parameter sets survive save/load and stay consistent under any call sequence

Bounded stand-in (model-based): dictionaries, strings, getattr/setattr and files are outside what the
sidecar verifier can express; the real class is driven by random call sequences and compared with a plain
dictionary model after every call, and saved/loaded through real files."""
import importlib
import os
import random
import tempfile

from .common import *
from pyvc.runner import Unit


class Other:
    pass


NAMES = ['a', 'b', 'cell__a', 'wavelength', 'o11', 't_x', 'fit_tol', 'x', 'y2']


def gen_value(rng):
    k = rng.randrange(7)
    if k == 0:
        return rng.randint(-10 ** 6, 10 ** 6)
    if k == 1:
        return rng.choice([2 ** 53 + 1, -2 ** 60 - 7, 10 ** 22 + 1, 0, -1])
    if k == 2:
        return rng.uniform(-1e3, 1e3)
    if k == 3:
        return rng.choice([1e22, -0.0, 1e-310, 0.1, 3.141592653589793, 1e308, 5e-324])
    if k == 4:
        return rng.choice(['abc', 'file.edf', 'P21/c', 'None', 'x-y', '1e', '0x10', 'nan_', 'e5'])
    if k == 5:
        return rng.choice(['12', '-7', '3.5', '1e3', ' 42', '007', '+7', '+0', '1_000', '-1_0', '+3.5', '  -8  ', '1_0.5', '-0', '1E2', '.5', '5.'])      # numeric-looking strings
    return rng.random()


def one_sequence(rng):
    P = importlib.import_module('xfab.parameters')
    init = {n: gen_value(rng) for n in rng.sample(NAMES, rng.randint(0, 3))}
    init = {k: v for k, v in init.items() if not isinstance(v, str)}      # kwargs are not type-coerced: keep it simple
    p = P.parameters(**dict(init))
    model = dict(init)
    vary = []
    variable = []
    trace = [('init', dict(init))]
    for step in range(rng.randint(1, 30)):
        op = rng.choice(['addpar', 'set', 'set_parameters', 'set_varylist', 'set_variable_values', 'update_other',
                         'update_yourself', 'get', 'get_parameters', 'get_variable_values'])
        try:
            if op == 'addpar':
                n, v = rng.choice(NAMES), gen_value(rng)
                vy, cv = rng.random() < 0.5, rng.random() < 0.7
                p.addpar(P.par(n, v, vary=vy, can_vary=cv, stepsize=0.1))
                model[n] = v
                if vy and n not in vary:
                    vary.append(n)
                if cv and n not in variable:
                    variable.append(n)
                trace.append((op, n, v, vy, cv))
            elif op == 'set':
                n, v = rng.choice(NAMES), gen_value(rng)
                p.set(n, v)
                model[n] = v
                trace.append((op, n, v))
            elif op == 'set_parameters':
                d = {n: gen_value(rng) for n in rng.sample(NAMES, rng.randint(0, 3))}
                p.set_parameters(dict(d))
                model.update(d)
                for k_, v_ in list(model.items()):          # dumbtypecheck: numeric-looking strings become int / float
                    model[k_] = coerce(v_)
                trace.append((op, d))
            elif op == 'set_varylist':
                cand = [n for n in variable if n in model]
                vl = rng.sample(cand, rng.randint(0, len(cand))) if cand else []
                p.set_varylist(list(vl))
                vary = list(vl)
                trace.append((op, vl))
            elif op == 'set_variable_values':
                vals = [gen_value(rng) for _ in vary]
                p.set_variable_values(vals)
                for n, v in zip(vary, vals):
                    model[n] = v
                trace.append((op, vals))
            elif op == 'update_other':
                o = Other()
                for n in rng.sample(NAMES, 3):
                    setattr(o, n, 'old')
                had = [n for n in NAMES if hasattr(o, n)]
                p.update_other(o)
                for n in had:
                    exp = model[n] if n in model else 'old'
                    if not same(getattr(o, n), exp):
                        return {'trace': trace, 'problem': 'update_other: attribute %s = %r, expected %r' % (n, getattr(o, n), exp)}
                trace.append((op, had))
            elif op == 'update_yourself':
                o = Other()
                d = {n: gen_value(rng) for n in rng.sample(NAMES, 3)}
                for n, v in d.items():
                    setattr(o, n, v)
                p.update_yourself(o)
                for n, v in d.items():
                    if n in model:
                        model[n] = v
                trace.append((op, d))
            elif op == 'get':
                for n in model:
                    if not same(p.get(n), model[n]):
                        return {'trace': trace, 'problem': 'get(%s) = %r, model %r' % (n, p.get(n), model[n])}
            elif op == 'get_variable_values':
                got = p.get_variable_values()
                exp = [model[n] for n in vary]
                if len(got) != len(exp) or not all(same(a, b) for a, b in zip(got, exp)):
                    return {'trace': trace, 'problem': 'get_variable_values = %r, model %r' % (got, exp)}
        except Exception as e:
            return {'trace': trace, 'problem': '%s raised %r' % (op, e)}
        gp = p.get_parameters()
        if set(gp) != set(model) or not all(same(gp[k_], model[k_]) for k_ in model):
            return {'trace': trace, 'problem': 'after %s: get_parameters() = %r, model = %r' % (op, gp, model)}
    return None


def same(a, b):
    if isinstance(a, float) and isinstance(b, float):
        import struct
        return struct.pack('<d', a) == struct.pack('<d', b)
    return type(a) is type(b) and a == b


def coerce(v):
    """the documented load-time coercion: a string becomes int if it parses as int, else float if it parses as float,
    else the stripped string"""
    if not isinstance(v, str):
        return v
    try:
        vf = float(v)
    except ValueError:
        return v.strip()
    try:
        return int(v)
    except ValueError:
        return vf


def one_roundtrip(rng):
    P = importlib.import_module('xfab.parameters')
    names = rng.sample(NAMES + ['det-x', 'y-center', 'a-b-c'], rng.randint(1, 8))
    vals = {}
    for n in names:
        v = gen_value(rng)
        if isinstance(v, str):
            v = v.strip()
        vals[n] = v
    p = P.parameters()
    for n, v in vals.items():
        p.set(n, v)
    fd, path = tempfile.mkstemp(prefix='xfabpar', dir='/dev/shm')
    os.close(fd)
    try:
        p.saveparameters(path)
        q = P.read_par_file(path)
    finally:
        os.unlink(path)
    got = q.get_parameters()
    exp = {n.replace('-', '_'): coerce(v) for n, v in vals.items()}
    if set(got) != set(exp) or not all(same(got[k_], exp[k_]) for k_ in exp):
        return {'saved': {k_: repr(v) for k_, v in vals.items()}, 'loaded': {k_: repr(v) for k_, v in got.items()},
                'expected': {k_: repr(v) for k_, v in exp.items()}}
    return None


def units(tier):
    return [BoundedUnit('parameters.call_sequences_vs_dictionary_model', one_sequence, 8000, 100000,
                        'random sequences (length <= 30) of addpar/set/set_parameters/set_varylist/set_variable_values/update_other/'
                        'update_yourself/get*: after every call get_parameters() equals a plain dictionary model, varied values follow varylist order'),
            BoundedUnit('parameters.save_load_roundtrip', one_roundtrip, 5000, 100000,
                        'save then load through a real file: ints (incl. > 2^53), floats (bit-exact, incl. -0.0, denormals, 1e22), space-free strings; '
                        'numeric-looking strings become int/float; hyphens in names become underscores')]


def main(tier, seed, write_baseline=False):
    return Rn.run_property('C19', units(tier), tier, seed, level='exploration',
                           assumptions=['bounded stand-in only: Python dictionaries with arbitrary keys, string formatting/parsing, getattr/setattr and '
                                        'file I/O are outside what the sidecar verifier models; no contract is discharged deductively for this property',
                                        'the dictionary model and the coercion rule are written in checks/C19.py from the property statement'],
                           trusted=['CPython'], write_baseline=write_baseline)
