"""C02 -- orientation U, metric B and UBI convert into each other without loss"""
from .common import *
from contracts.specs import *
from pyvc.engine import Mat, Real

PROVED = ['u_to_ubi', 'ubi_to_cell', 'ubi_to_u#of_u_to_ubi', 'ubi_to_rod#of_u_to_ubi', 'ub_to_u_b']
BOUNDED = ['ubi_to_cell#of_u_to_ubi']


def bounded_ubi_to_u_b(module):
    """ubi_to_u_b(u_to_ubi(U, cell)) returns U and B = form_b_mat(cell) (composition of two proved contracts with the
    uniqueness of the factorisation, which is not machine-checked)"""
    import importlib
    import numpy as np
    from pyvc.engine import Cell, random_rotation
    mod = importlib.import_module('xfab.' + module)
    cell = Cell()

    def f(rng):
        c = cell.sample(rng)
        U = np.array(random_rotation(rng))
        ubi = mod.u_to_ubi(U, c)
        U2, B2 = mod.ubi_to_u_b(ubi)
        B = mod.form_b_mat(c)
        if np.abs(U2 - U).max() > 1e-7 or np.abs(B2 - B).max() > 1e-7 * (1 + np.abs(B).max()):
            return {'cell': c, 'U': U.tolist(), 'U_returned': U2.tolist(), 'B_returned': B2.tolist()}
    return f


def units(tier):
    us = []
    for m in ('tools', 'laue'):
        for f in PROVED:
            us.append(FuncUnit(m, f))
        for f in BOUNDED:
            us.append(RuntimeContractUnit(m, f, 300, 10000))
        us.append(BoundedUnit(m + '.ubi_to_u_b_returns_U_and_B', bounded_ubi_to_u_b(m), 300, 10000,
                              'ubi_to_u_b(u_to_ubi(U, cell)) == (U, form_b_mat(cell)) within 1e-7 for random rotations and valid cells'))
    return us


def main(tier, seed, write_baseline=False):
    return Rn.run_property('C02', units(tier), tier, seed, level='proof',
                           assumptions=COMMON + ['numpy.linalg.qr(M) := some (Q, R) with Q\'Q = I, R upper triangular, QR = M (assumed contract; '
                                                 'nothing is assumed about signs); validated against numpy on every run',
                                                 'ASSUMED (bounded-validated only): ubi_to_cell(K (U B(c0))^-1) == c0 -- used by the proof of ubi_to_u; its '
                                                 'general contract G(result) = UBI.UBI\' is proved, the identity UBI.UBI\' = G(c0) plus injectivity is sampled',
                                                 'uniqueness of the U.B factorisation (orthogonal x upper triangular with positive diagonal) is on paper'],
                           trusted=TRUSTED, write_baseline=write_baseline)
