"""C02 -- orientation U, metric B and UBI convert into each other without loss"""
from .common import *
from contracts.specs import *
from pyvc.engine import Mat, Real, Rot, Cell

PROVED = ['u_to_ubi', 'ubi_to_cell', 'ubi_to_u#of_u_to_ubi', 'ubi_to_rod#of_u_to_ubi', 'ub_to_u_b']
BOUNDED = ['ubi_to_cell#of_u_to_ubi']


def bounded_ubi_to_u_b(module):
    """ubi_to_u_b(u_to_ubi(U, cell)) returns U and B = form_b_mat(cell) (composition of two proved contracts with the
    uniqueness of the factorisation, which is not machine-checked)"""
    import importlib
    import numpy as np
    from pyvc.engine import Cell, random_rotation
    mod = importlib.import_module('xfab.' + module)
    cell = Cell()

    def f(rng):
        c = cell.sample(rng)
        U = np.array(random_rotation(rng))
        ubi = mod.u_to_ubi(U, c)
        U2, B2 = mod.ubi_to_u_b(ubi)
        B = mod.form_b_mat(c)
        if np.abs(U2 - U).max() > 1e-7 or np.abs(B2 - B).max() > 1e-7 * (1 + np.abs(B).max()):
            return {'cell': c, 'U': U.tolist(), 'U_returned': U2.tolist(), 'B_returned': B2.tolist()}
    return f


def bounded_ub_to_u_b_conditioned(module):
    """ub_to_u_b on U.B with condition numbers up to 1e6 (the range the property names): the factorisation must stay
    orthonormal and reproduce U and B to 1e-8 relative -- a backward-stable QR does, a Gram/Cholesky route does not"""
    import importlib
    import numpy as np
    from pyvc.engine import random_rotation
    mod = importlib.import_module('xfab.' + module)

    def f(rng):
        U = np.array(random_rotation(rng))
        cond = 10 ** rng.uniform(0, 5.9)
        if rng.random() < 0.6:
            # a generic ill-conditioned factor: singular vectors in general position (graded matrices, the other
            # case, are factorised accurately even by squaring routes)
            def ortho():
                q, r = np.linalg.qr(np.array([[rng.gauss(0, 1) for _ in range(3)] for _ in range(3)]))
                return q
            A = ortho().dot(np.diag([1.0, cond ** rng.uniform(0, 1), cond])).dot(ortho())
            q, r = np.linalg.qr(A)
            B = (r.T * np.sign(np.diag(r))).T / cond ** 0.5
        else:
            d = [1.0, cond ** rng.uniform(0, 1), cond]
            rng.shuffle(d)
            B = np.diag(d)
            for (i, j) in ((0, 1), (0, 2), (1, 2)):
                B[i, j] = rng.uniform(-1, 1) * min(d[i], d[j])
            B /= max(d) ** 0.5
        if np.linalg.cond(B) > 9e5 or np.any(np.diag(B) <= 0):
            return None
        UB = U.dot(B)
        U2, B2 = mod.ub_to_u_b(UB)
        U2, B2 = np.asarray(U2), np.asarray(B2)
        sc = np.abs(B).max()
        bad = {}
        if not (np.all(np.isfinite(U2)) and np.all(np.isfinite(B2))):
            bad['finite'] = False
        else:
            bad_orth = np.abs(U2.T.dot(U2) - np.eye(3)).max()
            if bad_orth > 1e-9:
                bad['orthonormality_error'] = float(bad_orth)
            if np.abs(U2.dot(B2) - UB).max() > 1e-9 * sc:
                bad['product_error'] = float(np.abs(U2.dot(B2) - UB).max() / sc)
            if np.abs(U2 - U).max() > 1e-8 or np.abs(B2 - B).max() > 1e-8 * sc:
                bad['U_error'] = float(np.abs(U2 - U).max())
                bad['B_error'] = float(np.abs(B2 - B).max() / sc)
        if bad:
            bad.update({'UB': UB.tolist(), 'cond': float(np.linalg.cond(B))})
            return bad
    return f


def _req_rot_cell(U, c):
    yield 'is_rotation', is_rotation(U)
    yield 'valid_cell', valid_cell(c)


def lemma_ubi_metric(module):
    """UBI.UBI' = G(c) for UBI = u_to_ubi(U, c): the UBI is a fresh matrix constrained only by the (proved) postcondition
    of u_to_ubi, B by the (proved) postcondition of form_b_mat; the algebra is the explicit-certificate lemma
    algebra.ubi_metric instantiated here.  With ubi_to_cell's proved contract G(result) = UBI.UBI' this is the metric
    half of ubi_to_cell(u_to_ubi(U, c)) = c (the other half, metric -> parameters injective, is lemma a_to_cell∘form_a_mat of C01)."""
    from . import algebra as A

    def body(ns, U, c):
        from pyvc.engine import REGISTRY
        from contracts.tools_laue import native_fn, num_args
        from pyvc import terms as T
        k = REGISTRY[(module, 'u_to_ubi')]
        K = k.K()
        f = native_fn(module, 'u_to_ubi')
        na = num_args([U, c])
        Bn = entries(ns.form_b_mat(c))          # postcondition of form_b_mat: upper_pos, (B'B) G = K^2 I, B = Bspec
        X = [[T.real('ubi_%d%d' % (i, j), numdef=(lambda env, i=i, j=j: float(f(*na(env))[i][j]))) for j in range(3)] for i in range(3)]
        cx = T.ctx()
        for nm, cond in k.ensures(U, c, X):
            cx.assume(cond)                     # postcondition of u_to_ubi(U, c): X.(U.Bm) = K I = (U.Bm).X, Bm := Bspec(c, K)
        Bm = named('Bm', Bspec(c, K))
        yield 'K_positive', K > 0
        flat = [x for row in X for x in row] + [x for row in entries(U) for x in row] + [x for row in Bm for x in row] + \
               [x for row in G(c) for x in row] + [K]
        yield from A.use_explicit('ubi_metric', A.L_ubi_metric, *flat)
        yield from named_mat_eq('ubi_ubiT_is_metric_of_cell', mm(X, tr(X)), G(c))
    return body


def units(tier):
    from . import algebra as A
    us = [A.unit_explicit('ubi_metric', A.L_ubi_metric, 37)]
    for m in ('tools', 'laue'):
        us.append(LemmaUnit('ubi_metric_is_cell_metric', m, [('U', Rot()), ('c', Cell())], _req_rot_cell, lemma_ubi_metric(m)))
        for f in PROVED:
            us.append(FuncUnit(m, f))
        for f in BOUNDED:
            us.append(RuntimeContractUnit(m, f, 300, 10000))
        us.append(BoundedUnit(m + '.ubi_to_u_b_returns_U_and_B', bounded_ubi_to_u_b(m), 300, 10000,
                              'ubi_to_u_b(u_to_ubi(U, cell)) == (U, form_b_mat(cell)) within 1e-7 for random rotations and valid cells'))
        us.append(BoundedUnit(m + '.ub_to_u_b_condition_up_to_1e6', bounded_ub_to_u_b_conditioned(m), 400, 10000,
                              'ub_to_u_b(U.B) for det > 0 and cond(B) up to 1e6: orthonormal to 1e-9, U and B recovered to 1e-8'))
    return us


def main(tier, seed, write_baseline=False):
    return Rn.run_property('C02', units(tier), tier, seed, level='proof',
                           assumptions=COMMON + ['numpy.linalg.qr(M) := some (Q, R) with Q\'Q = I, R upper triangular, QR = M (assumed contract; '
                                                 'nothing is assumed about signs); validated against numpy on every run',
                                                 'ASSUMED (bounded-validated only): ubi_to_cell(K (U B(c0))^-1) == c0 -- used by the proof of ubi_to_u; its '
                                                 'general contract G(result) = UBI.UBI\' is proved, the identity UBI.UBI\' = G(c0) plus injectivity is sampled',
                                                 'uniqueness of the U.B factorisation (orthogonal x upper triangular with positive diagonal) is on paper'],
                           trusted=TRUSTED, write_baseline=write_baseline)
