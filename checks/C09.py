"""C09 -- returned (omega, eta) satisfy the diffraction condition; no solution is missed"""
from .common import *

PROVED = ['find_omega_general']
CALLEES = ['form_omega_mat', 'form_omega_mat_general', 'quart_to_omega']   # the rotation matrices the solvers are judged against
BOUNDED = ['find_omega', 'find_omega_quart', 'find_omega_wedge']


def units(tier):
    us = []
    for m in ('tools', 'laue'):
        for f in PROVED + CALLEES:
            us.append(FuncUnit(m, f))
        for f in PROVED + BOUNDED:
            us.append(RuntimeContractUnit(m, f, 400, 20000))
    return us


def main(tier, seed, write_baseline=False):
    return Rn.run_property('C09', units(tier), tier, seed, level='proof', assumptions=COMMON, trusted=TRUSTED,
                           write_baseline=write_baseline)
