"""C03 -- every orientation parametrisation yields a proper rotation and inverts exactly"""
import math
from .common import *

CONSTRUCTORS = ['euler_to_u', 'form_omega_mat', 'form_omega_mat_general', 'detect_tilt', 'quart_to_omega', 'rod_to_u']
INVERSES = ['u_to_rod', '_arctan2', 'u_to_euler']


def bounded_euler_lock(module):
    """u_to_euler(euler_to_u(.)) rebuilds U within 1e-6 at and near gimbal lock"""
    import importlib
    import numpy as np
    mod = importlib.import_module('xfab.' + module)

    def f(rng):
        e = rng.choice([0.0, 1e-12, 1e-10, 1e-9, 5e-9, 1e-8, 2e-8, 1e-7, 1e-6, 1e-5, 1e-4, 1e-3])
        PHI = e if rng.random() < 0.5 else math.pi - e
        p1 = rng.choice([0.0, 0.05, math.pi / 2, math.pi, 3.0, rng.uniform(0, 2 * math.pi)])
        p2 = rng.choice([0.0, 0.3, math.pi / 2, math.pi, 4.0, rng.uniform(0, 2 * math.pi)])
        U = mod.euler_to_u(p1, PHI, p2)
        a = mod.u_to_euler(U)
        U2 = mod.euler_to_u(*a)
        err = float(np.abs(U2 - U).max())
        ok = err <= 1e-6 and 0 <= a[0] <= 2 * math.pi and 0 <= a[1] <= math.pi and 0 <= a[2] <= 2 * math.pi
        if not ok:
            return {'euler': [p1, PHI, p2], 'returned': list(map(float, a)), 'rebuild_error': err}
    return f


def units(tier):
    us = []
    for m in ('tools', 'laue'):
        for f in CONSTRUCTORS + INVERSES:
            us.append(FuncUnit(m, f))
        us.append(BoundedUnit(m + '.u_to_euler_near_gimbal_lock', bounded_euler_lock(m), 2000, 200000,
                              'u_to_euler(euler_to_u(phi1,PHI,phi2)) rebuilds U within 1e-6 for PHI at / within '
                              '1e-12..1e-3 of 0 and pi'))
    return us


def main(tier, seed, write_baseline=False):
    return Rn.run_property('C03', units(tier), tier, seed, level='proof', assumptions=COMMON, trusted=TRUSTED,
                           write_baseline=write_baseline)
