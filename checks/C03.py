"""C03 -- every orientation parametrisation yields a proper rotation and inverts exactly"""
from .common import *

CONSTRUCTORS = ['euler_to_u', 'form_omega_mat', 'form_omega_mat_general', 'detect_tilt', 'quart_to_omega', 'rod_to_u']


def units(tier):
    us = []
    for m in ('tools', 'laue'):
        for f in CONSTRUCTORS:
            us.append(FuncUnit(m, f))
    return us


def main(tier, seed, write_baseline=False):
    return Rn.run_property('C03', units(tier), tier, seed, level='proof', assumptions=COMMON, trusted=TRUSTED,
                           write_baseline=write_baseline)
