"""The de-duplication keys of genhkl_all, as contracts on the real expressions.

genhkl_all removes repeated rows with   numpy.unique(KEY(rows), return_index=True)   twice: for the list of rotation
matrices (rows are 3x3 integer matrices) and, per reflection, for the list of its equivalents (rows are integer hkl).
The contract of that idiom: KEY is injective on the rows that can occur, otherwise two different equivalents collapse
into one and a reflection is lost.  The first argument of every numpy.unique call in the real function is taken from
the AST on every run and evaluated on two symbolic integer rows x, y; numpy.random.rand yields fresh real symbols w
("generic weights").

   KEY linear in w:   sum_m w_m c_m(x) -- collisions for x != y lie on a hyperplane in w unless c(x) == c(y);
                      obligation (z3, all integers):  c(x) == c(y)  ==>  x == y
   KEY without w:     obligation (z3, all integers):  KEY(x) == KEY(y) and y = x.R for a point-group operation R  ==>  x == y
                      a model is replayed on the real genhkl_all (cubic cell scaled so that x is in a thin shell).

Assumption recorded in the evidence: the random weights are generic (a collision for given x != y has probability zero
in exact arithmetic; in doubles it needs an exact tie of two 53-bit sums)."""
import ast
import itertools
import time
import traceback

import z3

from pyvc import terms as T, npmodel as NPM
from pyvc.runner import Unit
from pyvc.source import Source

CUBIC_OPS = []
for perm in itertools.permutations(range(3)):
    for sg in itertools.product((1, -1), repeat=3):
        M = [[0] * 3 for _ in range(3)]
        for i in range(3):
            M[i][perm[i]] = sg[i]
        CUBIC_OPS.append(M)


class _Rand:
    def __init__(self):
        self.syms = []

    def rand(self, *shape):
        n = 1
        for s in shape:
            n *= s
        flat = []
        for _ in range(n):
            nm = 'w%d' % len(self.syms)
            s = T.real(nm)
            self.syms.append(s)
            flat.append(s)
        return NPM.SArr(tuple(shape), flat)


class _NP(NPM.NumpyModel):
    pass


def unique_calls(fn):
    out = []
    for node in ast.walk(fn):
        if isinstance(node, ast.Call) and isinstance(node.func, ast.Attribute) and node.func.attr == 'unique' and node.args:
            out.append(node)
    return sorted(out, key=lambda c: (c.lineno, c.col_offset))


def replay_collision(module, x):
    """run the real genhkl_all on a primitive cubic cell with x on the upper shell bound; a failing input if the
    Laue orbit of x is not listed completely and exactly once"""
    import importlib
    import numpy as np
    mod = importlib.import_module('xfab.' + module)
    m = max(abs(v) for v in x) or 1
    a = 4.0 * m
    cell = [a, a, a, 90.0, 90.0, 90.0]
    stl = float(mod.sintl(cell, list(x)))
    np.random.seed(1)
    got = np.asarray(mod.genhkl_all(cell, stl * (1 - 1e-9), stl, sgno=221), float)
    rows = [tuple(int(round(v)) for v in r[:3]) for r in got]
    orbit = {tuple(int(v) for v in np.array(x).dot(np.array(R))) for R in CUBIC_OPS}
    missing = sorted(orbit - set(rows))
    dup = len(rows) != len(set(rows))
    if missing or dup:
        return {'module': module, 'unit_cell': cell, 'sintlmin': stl * (1 - 1e-9), 'sintlmax': stl, 'sgno': 221,
                'missing_equivalents_of': list(x), 'missing': [list(r) for r in missing[:6]], 'n_missing': len(missing), 'duplicates': dup}
    return None


class DedupKeyUnit(Unit):
    kind = 'vc'

    def __init__(self, module):
        self.module = module

    def label(self):
        return self.module + '.genhkl_all.dedup_keys'

    def run(self, tier, seed):
        out = {'unit': self.label(), 'functions': [{'module': self.module, 'name': 'genhkl_all', 'sha': Source().sha(self.module, 'genhkl_all'),
                                                    'contract': 'dedup key injective (expression-level)'}],
               'obligations': [], 'notes': [], 'validation': None, 'native': None}
        src = Source()
        fn = src.funcdef(self.module, 'genhkl_all')
        alias = 'n' if self.module == 'tools' else 'np'
        calls = unique_calls(fn)
        if len(calls) == 0:
            out['notes'].append('no numpy.unique call in genhkl_all: the de-duplication is done differently; nothing to state here')
        for ci, call in enumerate(calls):
            name = '%s.genhkl_all.unique_call_%d_key_injective' % (self.module, ci)
            t0 = time.time()
            try:
                ob = self.one(call, alias, name)
            except T.OutsideSubset as e:
                ob = {'status': 'unknown', 'detail': 'outside subset: %s' % e, 'backend': ''}
            except Exception as e:
                ob = {'status': 'error', 'detail': '%r\n%s' % (e, traceback.format_exc()), 'backend': '', 'kind': 'engine'}
            ob.setdefault('kind', 'vc')
            ob.update({'name': name, 'seconds': round(time.time() - t0, 3), 'path': 'line %d' % call.lineno})
            ob.setdefault('model', None)
            out['obligations'].append(ob)
        return out

    def one(self, call, alias, name):
        expr = call.args[0]
        free = sorted({n_.id for n_ in ast.walk(expr) if isinstance(n_, ast.Name)} - {alias})
        if len(free) != 1:
            raise T.OutsideSubset('key expression over %r' % (free,))
        var = free[0]
        c = T.Ctx()
        T.set_ctx(c)
        try:
            rnd = _Rand()
            npm = _NP()
            npm.random = rnd
            code = compile(ast.fix_missing_locations(ast.Expression(body=expr)), '<dedup key>', 'eval')
            res = None
            for shape in ((2, 3), (2, 3, 3)):
                k = 1
                for s_ in shape[1:]:
                    k *= s_
                xs = [T.integer('x%d' % i) for i in range(k)]
                ys = [T.integer('y%d' % i) for i in range(k)]
                arr = NPM.SArr(shape, xs + ys)
                try:
                    val = eval(code, {alias: npm, var: arr})
                except (ValueError, IndexError, TypeError):
                    continue
                if isinstance(val, NPM.SArr) and val.shape == (2,):
                    res = (shape, xs, ys, val)
                    # the weights drawn while trying another shape are not part of this key
                    break
                rnd.syms = []
            if res is None:
                raise T.OutsideSubset('key expression does not map rows to scalars')
            shape, xs, ys, val = res
            zx, zy = [v.z for v in xs], [v.z for v in ys]
            k0, k1 = T.lift(val.flat[0]), T.lift(val.flat[1])
            if k0.d is not None or k1.d is not None:
                raise T.OutsideSubset('key with a denominator')
            d = k0.n - k1.n
            W = [w.z for w in rnd.syms]
            differ = z3.Or(*[a != b for a, b in zip(zx, zy)])
            s = z3.Solver()
            s.set('timeout', 20000)
            if W:
                zero = [(w, z3.RealVal(0)) for w in W]
                c0 = z3.simplify(z3.substitute(d, *zero))
                cs = []
                for i, w in enumerate(W):
                    unit = [(v, z3.RealVal(1 if j == i else 0)) for j, v in enumerate(W)]
                    cs.append(z3.simplify(z3.substitute(d, *unit) - c0))
                lin = c0 + z3.Sum([ci * w for ci, w in zip(cs, W)])
                chk = z3.Solver()
                chk.set('timeout', 20000)
                chk.add(d != lin)
                if chk.check() != z3.unsat:
                    raise T.OutsideSubset('key is not linear in the random weights')
                s.add(c0 == 0, *[ci == 0 for ci in cs])
                s.add(differ)
                r = s.check()
                backend = 'z3 %s (LIA, all integer rows; generic weights)' % z3.get_version_string()
                if r == z3.unsat:
                    return {'status': 'discharged', 'detail': '', 'backend': backend}
                if r == z3.sat:
                    m = s.model()
                    return {'status': 'refuted', 'backend': backend, 'detail': 'rows %r and %r have the same key for every choice of the weights'
                            % ([m.eval(v, True).as_long() for v in zx], [m.eval(v, True).as_long() for v in zy]),
                            'model': {'x': [m.eval(v, True).as_long() for v in zx], 'y': [m.eval(v, True).as_long() for v in zy]}}
                return {'status': 'unknown', 'detail': 'z3: %s' % s.reason_unknown(), 'backend': backend}
            # deterministic key
            backend = 'z3 %s (LIA, all integer rows)' % z3.get_version_string()
            s.add(d == 0, differ)
            if shape == (2, 3):
                alts = []
                for Rm in CUBIC_OPS:
                    alts.append(z3.And(*[zy[j] == z3.Sum([zx[i] * Rm[i][j] for i in range(3)]) for j in range(3)]))
                s.add(z3.Or(*alts))
                # smallest indices first: keeps the replay affordable; the obligation itself is decided unbounded below
                for bound in (8, 20, 50, 100, 200, 400):
                    s.push()
                    s.add(*[z3.And(v >= -bound, v <= bound) for v in zx])
                    r = s.check()
                    if r == z3.sat:
                        break
                    s.pop()
            else:
                r = s.check()
            if r == z3.unsat and shape == (2, 3):
                # no collision inside a cubic orbit with |index| <= 400: decide the unbounded statement too
                s2 = z3.Solver()
                s2.set('timeout', 20000)
                s2.add(d == 0, differ)
                r2 = s2.check()
                if r2 == z3.unsat:
                    return {'status': 'discharged', 'detail': '', 'backend': backend}
                if r2 == z3.sat:
                    m = s2.model()
                    return {'status': 'refuted', 'backend': backend, 'detail': 'different rows %r and %r have the same key'
                            % ([m.eval(v, True).as_long() for v in zx], [m.eval(v, True).as_long() for v in zy]),
                            'model': {'x': [m.eval(v, True).as_long() for v in zx], 'y': [m.eval(v, True).as_long() for v in zy]}}
                return {'status': 'unknown', 'detail': 'z3: %s' % s2.reason_unknown(), 'backend': backend}
            if r == z3.unsat:
                return {'status': 'discharged', 'detail': '', 'backend': backend}
            if r == z3.sat:
                m = s.model()
                x = [m.eval(v, True).as_long() for v in zx]
                y = [m.eval(v, True).as_long() for v in zy]
                ob = {'status': 'refuted', 'backend': backend, 'model': {'x': x, 'y': y},
                      'detail': 'symmetry-equivalent reflections %r and %r have the same key' % (x, y)}
                if shape == (2, 3):
                    T.set_ctx(None)
                    wit = replay_collision(self.module, x)
                    if wit is not None:
                        ob['kind'] = 'ground'
                        ob['ground_witness'] = wit
                        ob['detail'] += '; replayed on the real genhkl_all: %d equivalents missing' % wit['n_missing']
                return ob
            return {'status': 'unknown', 'detail': 'z3: %s' % s.reason_unknown(), 'backend': backend}
        finally:
            T.set_ctx(None)
