"""C14 -- xfab.tools and xfab.laue agree on everything except the documented factor 2*pi

rule A (structural, sound): a common function whose text is identical in both modules (numpy alias and docstrings
        normalised) and all of whose transitive callees are identical too computes the same results.
rule K: the pairs that differ, or call a differing callee, are related through ONE contract text instantiated with
        K = 2*pi (tools) and K = 1 (laue); the contracts that carry the relation are discharged here for both modules.
bounded: every one of the 41 pairs is also compared natively on shared random inputs.
"""
import ast
import importlib
import math
import random

import numpy as np

from .common import *
from pyvc.ground import GroundUnit
from pyvc.source import Source, normalised_dump
from pyvc.engine import Cell, random_rotation, REGISTRY
from pyvc.runner import Unit

# pair -> the K-parametrised contracts (registry keys) that state its relation
K_CONTRACTS = {
    'form_b_mat': ['form_b_mat'], 'u_to_ubi': ['u_to_ubi'], 'ubi_to_u': ['ubi_to_u#of_u_to_ubi'],
    'ubi_to_rod': ['ubi_to_rod#of_u_to_ubi'], 'find_omega_general': ['find_omega_general'], 'find_omega': ['find_omega'],
    'find_omega_quart': ['find_omega_quart'], 'b_to_cell': ['b_to_cell'], 'epsilon_to_b': ['epsilon_to_b'],
    'b_to_epsilon': ['b_to_epsilon'], 'sintl': ['sintl'], 'ubi_to_cell': ['ubi_to_cell'],
}
THE_41 = ['_arctan2', 'a_to_cell', 'b_to_cell', 'b_to_epsilon', 'b_to_epsilon_old', 'cell_invert', 'cell_volume', 'detect_tilt', 'epsilon_to_b',
          'epsilon_to_b_old', 'euler_to_u', 'find_omega', 'find_omega_general', 'find_omega_quart', 'find_omega_wedge', 'form_a_mat',
          'form_a_mat_inv', 'form_b_mat', 'form_omega_mat', 'form_omega_mat_general', 'genhkl', 'genhkl_all', 'genhkl_base', 'genhkl_unique',
          'quart_to_omega', 'reduce_cell', 'rod_to_u', 'sintl', 'sysabs', 'sysabs_unique', 'tth', 'tth2', 'u_to_euler', 'u_to_rod', 'u_to_ubi',
          'ub_to_u_b', 'ubi_to_cell', 'ubi_to_rod', 'ubi_to_u', 'ubi_to_u_and_eps', 'ubi_to_u_b']
PROVED_HERE = ['form_b_mat', 'u_to_ubi', 'sintl', 'b_to_epsilon']      # discharged in this check for both modules


def structure(tier, seed):
    src = Source()
    ft, fl = src.functions('tools'), src.functions('laue')
    common = sorted(set(ft) & set(fl))
    # the 41 functions the property quantifies over must exist in both modules (private helpers that only one module
    # has are not part of the statement)
    lost = [f for f in THE_41 if f not in ft or f not in fl]
    yield 'pair.common_functions', not lost, 'no longer defined in both modules: %r' % (lost,)

    def callees(funcs, name):
        return {n.id for n in ast.walk(funcs[name]) if isinstance(n, ast.Name) and n.id in funcs and n.id != name}
    same = {f: normalised_dump(ft[f]) == normalised_dump(fl[f]) for f in common}
    closed = {}

    def is_closed(f, seen=()):
        if f in closed:
            return closed[f]
        if f in seen:
            return True
        ok = same[f] and all(is_closed(g, seen + (f,)) for g in callees(ft, f) if g in same)
        closed[f] = ok
        return ok
    for f in common:
        if is_closed(f):
            yield 'pair.%s.identical_text_and_callees' % f, True, ''
        else:
            keys = K_CONTRACTS.get(f)
            if keys:
                ok = all(('tools', k) in REGISTRY and ('laue', k) in REGISTRY and
                         type(REGISTRY[('tools', k)]) is type(REGISTRY[('laue', k)]) for k in keys)
                yield 'pair.%s.related_by_one_contract_text_instantiated_with_K' % f, ok, 'contracts %r missing in a module' % keys
            # otherwise: no structural obligation -- the pair is covered by the bounded comparison only


def _cell(rng):
    return Cell().sample(rng)


def _U(rng, nohalf=False):
    while True:
        U = np.array(random_rotation(rng))
        if not nohalf or 1 + np.trace(U) > 1e-3:      # u_to_rod's domain excludes half turns (C03), where 1/(1+tr U) amplifies round-off
            return U


def _g(rng, tth):
    v = np.array([rng.gauss(0, 1) for _ in range(3)])
    return math.sin(tth / 2) * v / np.linalg.norm(v)


TWOPI = 2 * math.pi


def cases():
    """name -> f(rng, tools, laue) -> (value from tools, value from laue mapped to the tools convention)"""
    C = {}
    C['_arctan2'] = lambda r, t, l: (lambda y, x: (t._arctan2(y, x), l._arctan2(y, x)))(r.uniform(-1, 1), r.uniform(-1, 1))
    C['a_to_cell'] = lambda r, t, l: (lambda A: (t.a_to_cell(A), l.a_to_cell(A)))(np.array(t.form_a_mat(_cell(r))))
    C['b_to_cell'] = lambda r, t, l: (lambda c: (t.b_to_cell(t.form_b_mat(c)), l.b_to_cell(l.form_b_mat(c))))(_cell(r))
    C['cell_invert'] = lambda r, t, l: (lambda c: (t.cell_invert(c), l.cell_invert(c)))(_cell(r))
    C['cell_volume'] = lambda r, t, l: (lambda c: (t.cell_volume(c), l.cell_volume(c)))(_cell(r))
    C['form_a_mat'] = lambda r, t, l: (lambda c: (t.form_a_mat(c), l.form_a_mat(c)))(_cell(r))
    C['form_a_mat_inv'] = lambda r, t, l: (lambda c: (t.form_a_mat_inv(c), l.form_a_mat_inv(c)))(_cell(r))
    C['form_b_mat'] = lambda r, t, l: (lambda c: (t.form_b_mat(c), TWOPI * l.form_b_mat(c)))(_cell(r))
    C['sintl'] = lambda r, t, l: (lambda c, h: (t.sintl(c, h), l.sintl(c, h)))(_cell(r), [r.randint(-8, 8) for _ in range(3)])
    C['tth'] = lambda r, t, l: (lambda c, h: (t.tth(c, h, 0.2), l.tth(c, h, 0.2)))(_cell(r), [r.randint(-4, 4) for _ in range(3)])
    C['tth2'] = lambda r, t, l: (lambda g: (t.tth2(TWOPI * g, 0.3), l.tth2(g, 0.3)))(np.array([r.uniform(-1, 1) for _ in range(3)]))
    for nm in ('detect_tilt', 'euler_to_u'):
        C[nm] = (lambda nm: lambda r, t, l: (lambda a: (getattr(t, nm)(*a), getattr(l, nm)(*a)))([r.uniform(0, TWOPI) for _ in range(3)]))(nm)
    C['form_omega_mat'] = lambda r, t, l: (lambda a: (t.form_omega_mat(a), l.form_omega_mat(a)))(r.uniform(-7, 7))
    C['form_omega_mat_general'] = lambda r, t, l: (lambda a: (t.form_omega_mat_general(*a), l.form_omega_mat_general(*a)))([r.uniform(-3, 3) for _ in range(3)])
    C['quart_to_omega'] = lambda r, t, l: (lambda a: (t.quart_to_omega(*a), l.quart_to_omega(*a)))([r.uniform(-360, 360), r.uniform(-.5, .5), r.uniform(-.5, .5)])
    C['rod_to_u'] = lambda r, t, l: (lambda v: (t.rod_to_u(v), l.rod_to_u(v)))([r.uniform(-3, 3) for _ in range(3)])
    C['u_to_rod'] = lambda r, t, l: (lambda U: (t.u_to_rod(U), l.u_to_rod(U)))(_U(r, True))
    C['u_to_euler'] = lambda r, t, l: (lambda U: (t.u_to_euler(U), l.u_to_euler(U)))(_U(r))
    C['u_to_ubi'] = lambda r, t, l: (lambda U, c: (t.u_to_ubi(U, c), l.u_to_ubi(U, c)))(_U(r), _cell(r))
    C['ubi_to_cell'] = lambda r, t, l: (lambda ubi: (t.ubi_to_cell(ubi), l.ubi_to_cell(ubi)))(l.u_to_ubi(_U(r), _cell(r)))
    C['ubi_to_u'] = lambda r, t, l: (lambda ubi: (t.ubi_to_u(ubi), l.ubi_to_u(ubi)))(l.u_to_ubi(_U(r), _cell(r)))
    C['ubi_to_rod'] = lambda r, t, l: (lambda ubi: (t.ubi_to_rod(ubi), l.ubi_to_rod(ubi)))(l.u_to_ubi(_U(r, True), _cell(r)))

    def ubi_to_u_b(r, t, l):
        ubi = l.u_to_ubi(_U(r), _cell(r))
        (U1, B1), (U2, B2) = t.ubi_to_u_b(ubi), l.ubi_to_u_b(ubi)
        return ([U1, B1], [U2, TWOPI * B2])
    C['ubi_to_u_b'] = ubi_to_u_b

    def ub_to_u_b(r, t, l):
        M = _U(r).dot(l.form_b_mat(_cell(r)))
        (U1, B1), (U2, B2) = t.ub_to_u_b(TWOPI * M), l.ub_to_u_b(M)
        return ([U1, B1], [U2, TWOPI * B2])
    C['ub_to_u_b'] = ub_to_u_b

    def eps_to_b(nm):
        def f(r, t, l):
            c = _cell(r)
            e = [r.uniform(-.1, .1) for _ in range(6)]
            return (getattr(t, nm)(e, c), TWOPI * getattr(l, nm)(e, c))
        return f
    C['epsilon_to_b'] = eps_to_b('epsilon_to_b')
    C['epsilon_to_b_old'] = eps_to_b('epsilon_to_b_old')

    def b_to_eps(nm):
        def f(r, t, l):
            c = _cell(r)
            e = [r.uniform(-.1, .1) for _ in range(6)]
            B = l.epsilon_to_b(e, c)
            return (getattr(t, nm)(TWOPI * B, c), getattr(l, nm)(B, c))
        return f
    C['b_to_epsilon'] = b_to_eps('b_to_epsilon')
    C['b_to_epsilon_old'] = b_to_eps('b_to_epsilon_old')

    def ubi_to_u_and_eps(r, t, l):
        c = _cell(r)
        e = [r.uniform(-.1, .1) for _ in range(6)]
        U = _U(r)
        ubi = np.linalg.inv(U.dot(l.epsilon_to_b(e, c)))        # = 2 pi (U B_tools)^-1 : the same matrix in both conventions
        (U1, e1), (U2, e2) = t.ubi_to_u_and_eps(ubi, c), l.ubi_to_u_and_eps(ubi, c)
        return ([U1, e1], [U2, e2])
    C['ubi_to_u_and_eps'] = ubi_to_u_and_eps
    C['reduce_cell'] = lambda r, t, l: (lambda c: (t.reduce_cell(c), l.reduce_cell(c)))(_cell(r))

    def omega(nm, nextra):
        def f(r, t, l):
            tth = r.uniform(0.05, 1.5)
            g = _g(r, tth)
            extra = [r.uniform(-.5, .5) for _ in range(nextra)]
            a, b = getattr(t, nm)(g, tth, *extra), getattr(l, nm)(g, tth, *extra)
            return ([np.asarray(x, float) for x in (a if isinstance(a, tuple) else (a,))],
                    [np.asarray(x, float) for x in (b if isinstance(b, tuple) else (b,))])
        return f
    C['find_omega'] = omega('find_omega', 0)
    C['find_omega_general'] = omega('find_omega_general', 2)
    C['find_omega_quart'] = omega('find_omega_quart', 2)
    C['find_omega_wedge'] = omega('find_omega_wedge', 1)

    def sysabs(nm):
        def f(r, t, l):
            from pyvc import sgtables
            tabs = sgtables.tables()
            i = getattr(r, 'sample_index', None)
            name, setting, o = tabs[r.randrange(len(tabs)) if i is None else i % len(tabs)]      # cycles through every table
            hs = []
            for _ in range(40):
                a, b, c = (r.randint(-6, 6) for _ in range(3))
                hs.append(r.choice([[a, b, c], [a, b, b], [a, a, c], [a, b, a], [a, 0, c], [0, b, c], [a, b, 0], [a, a, a], [0, 0, c],
                                    [a, 0, 0], [0, b, 0], [a, -a, c], [a, b, -b], [a, a, -2 * a]]))
            if nm == 'sysabs':
                return ([t.sysabs(h, o.syscond, o.crystal_system, o.cell_choice) for h in hs],
                        [l.sysabs(h, o.syscond, o.crystal_system, o.cell_choice) for h in hs])
            return ([t.sysabs_unique(h, o.syscond) for h in hs], [l.sysabs_unique(h, o.syscond) for h in hs])
        return f
    C['sysabs'] = sysabs('sysabs')
    C['sysabs_unique'] = sysabs('sysabs_unique')

    def genhkl(nm):
        def f(r, t, l):
            from pyvc import sgtables
            from checks.C05 import conforming_cell
            tabs = sgtables.tables()
            name, setting, o = tabs[r.randrange(len(tabs))]
            cell = conforming_cell(r, o)
            smax = r.uniform(0.2, 0.35)
            cc = 'rhombohedral' if setting == 'rhombohedral' else 'standard'
            seed = r.randrange(2 ** 31)
            out = []
            for m in (t, l):
                np.random.seed(seed)
                if nm == 'genhkl_base':
                    v = m.genhkl_base(cell, o.syscond, 0.0, smax, o.crystal_system, o.Laue, o.cell_choice, True)
                elif nm == 'genhkl':
                    v = m.genhkl(cell, o.syscond, 0.0, smax, o.crystal_system, True)
                else:
                    v = getattr(m, nm)(cell, 0.0, smax, sgno=o.no, cell_choice=cc, output_stl=True)
                v = np.asarray(v, float)
                # reflections with mathematically equal sin(theta)/lambda may come out in either order (a one-ulp
                # difference between the modules' sintl decides the sort): compare the lists in a canonical order,
                # after checking that each is sorted as it stands
                if v.ndim == 2 and v.shape[1] == 4 and len(v):
                    v = v[np.argsort(v[:, 3], kind='stable')]
                    grp = np.concatenate([[0], np.cumsum(np.diff(v[:, 3]) > 1e-10)])      # runs of (numerically) equal sintl
                    v = v[np.lexsort((v[:, 2], v[:, 1], v[:, 0], grp))]
                out.append(v)
            return tuple(out)
        return f
    for nm in ('genhkl', 'genhkl_all', 'genhkl_base', 'genhkl_unique'):
        C[nm] = genhkl(nm)
    return C


def _flat(x):
    if isinstance(x, (list, tuple)):
        return np.concatenate([_flat(v) for v in x]) if len(x) else np.zeros(0)
    return np.ravel(np.asarray(x, float))


class PairsUnit(Unit):
    kind = 'bounded'

    def label(self):
        return 'bounded.pair'

    def run(self, tier, seed):
        t, l = importlib.import_module('xfab.tools'), importlib.import_module('xfab.laue')
        src = Source()
        common = sorted(set(src.functions('tools')) & set(src.functions('laue')))
        C = cases()
        rng = random.Random(seed)
        n = 40 if tier == 'quick' else 400
        ft, fl = src.functions('tools'), src.functions('laue')
        differs = {f for f in common if normalised_dump(ft[f]) != normalised_dump(fl[f])}
        fails = []
        total = 0
        missing = [f for f in common if f not in C]
        for f in common:
            if f not in C:
                continue
            slow = f.startswith('genhkl') or f == 'reduce_cell'
            # a pair whose two texts differ has nothing but this comparison (and possibly a K contract) behind it: sample it harder
            boost = 15 if f in differs else 1
            for si in range((max(3, n // 6) if slow else n) * boost):
                rng.sample_index = si
                try:
                    a, b = C[f](rng, t, l)
                except Exception as e:
                    fails.append({'name': f, 'failure': {'function': f, 'problem': 'exception %r' % (e,), 'U_error': 9, 'eps_error': 0}})
                    break
                total += 1
                fa, fb = _flat(a), _flat(b)
                if fa.shape != fb.shape or (fa.size and float(np.abs(fa - fb).max()) > 1e-8 * (1 + float(np.abs(fb).max()))):
                    fl_ = {'function': f, 'tools': fa.tolist()[:24], 'laue_mapped_to_tools_convention': fb.tolist()[:24],
                           'U_error': float(np.abs(fa[:9] - fb[:9]).max()) if fa.size >= 9 and fa.shape == fb.shape else 9.0,
                           'eps_error': float(np.abs(fa[9:] - fb[9:]).max()) if fa.size > 9 and fa.shape == fb.shape else 0.0}
                    fails.append({'name': f, 'failure': fl_})
                    break
        return {'unit': self.label(), 'functions': [], 'obligations': [], 'notes': [], 'validation': None, 'native': None,
                'bounded_multi': fails,
                'bounded': {'name': 'pair', 'samples': total, 'failures': [],
                            'what': 'each of the %d common functions called in both modules on the same random inputs (B and g-vectors '
                                    'scaled by 2 pi for tools where documented); results equal within 1e-8 relative; not covered: %r'
                                    % (len(common), missing)}}


def units(tier):
    us = [GroundUnit('pair.structure', structure), PairsUnit()]
    for m in ('tools', 'laue'):
        for f in PROVED_HERE:
            us.append(FuncUnit(m, f))
    return us


def main(tier, seed, write_baseline=False):
    return Rn.run_property('C14', units(tier), tier, seed, level='proof',
                           assumptions=COMMON + ['rule A: identical text (numpy alias and docstrings normalised) with identical transitive callees implies '
                                                 'identical results (determinism of CPython/numpy)',
                                                 'rule K: the relation of the differing pairs is carried by one contract text instantiated with K; of these, '
                                                 'form_b_mat, u_to_ubi, sintl and b_to_epsilon are discharged in this check for both modules, the others '
                                                 'under C01, C02, C09, C13 (or are bounded there)',
                                                 'a pair whose texts differ and that has no K-contract is covered by the bounded comparison only'],
                           trusted=TRUSTED, write_baseline=write_baseline)
