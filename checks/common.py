"""shared pieces of the per-property check modules"""
from pyvc import runner as Rn
from pyvc.runner import FuncUnit, LemmaUnit, BoundedUnit, RuntimeContractUnit
import contracts

contracts.load_all()

ASSUME_REALS = ('IEEE-754 doubles are treated as mathematical reals and int64 as mathematical integers '
                '(no rounding, overflow, NaN); float literals are read as the decimal numbers written in the source')
ASSUME_TRIG = ('trigonometric theory (trusted axioms): C^2+S^2=1 per angle atom, addition/multiple-angle formulas, '
               'exact values on the pi/6 and pi/4 grids, arccos/arcsin/arctan/arctan2 defining facts and ranges, '
               'sin>0 on (0,pi), cos injective on [0,pi], 3.14159<pi<3.14160')
ASSUME_NUMPY = ('assumed library contracts (validated against the real numpy on every run by engine validation): '
                'array/zeros/eye/asarray/transpose/dot/cross/sum, linalg.inv = adj/det with det != 0 obligation, '
                'linalg.det, linalg.norm, sqrt (r>=0, r^2=x, obligation x>=0), division (obligation divisor != 0)')
ASSUME_PY = ('Python semantics: the extracted function text is executed by CPython itself over symbolic values; '
             'module-level names resolve to the contracts of the functions of the same module, no monkey-patching, '
             '__debug__ True, logging has no effect, arguments are not aliased')
ASSUME_SOLVERS = 'z3 5.1 and cvc5 1.0.3 are sound; sympy is untrusted (hint generator only, every hint re-checked by z3)'
ASSUME_TERM = 'termination is not verified'
COMMON = [ASSUME_REALS, ASSUME_TRIG, ASSUME_NUMPY, ASSUME_PY, ASSUME_SOLVERS, ASSUME_TERM]
TRUSTED = ['z3 5.1.0', 'cvc5 1.0.3', 'CPython 3.11 (executes the extracted function text)',
           'pyvc term layer + numpy model (cross-validated against numpy on every run)',
           'trig/sqrt axioms of DESIGN 3.2']
