"""C10 -- detector pixel of a reflection lies on its scattered ray on the tilted detector"""
from .common import *


def units(tier):
    us = [FuncUnit('detector', f) for f in ('det_coor2', 'det_coor', 'det_v', 'detector_to_lab')]
    us.append(FuncUnit('tools', 'detect_tilt'))
    return us


def main(tier, seed, write_baseline=False):
    return Rn.run_property('C10', units(tier), tier, seed, level='proof', assumptions=COMMON, trusted=TRUSTED,
                           write_baseline=write_baseline)
