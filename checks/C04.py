"""C04 -- each tabulated space group is a group consistent with its metadata and names"""
import ast
import itertools
import re
from fractions import Fraction

import numpy as np

from .common import *
from pyvc.ground import GroundUnit
from pyvc import sgtables
from pyvc.source import Source

I3 = np.eye(3, dtype=int)
M = lambda rows: np.array(rows, dtype=int)
INV = -I3
GEN = {   # generators of the Laue groups in the standard settings of the International Tables
    ('-1', 'std'): [INV],
    ('2/m', 'std'): [M([[-1, 0, 0], [0, 1, 0], [0, 0, -1]]), INV],
    ('mmm', 'std'): [M([[-1, 0, 0], [0, -1, 0], [0, 0, 1]]), M([[-1, 0, 0], [0, 1, 0], [0, 0, -1]]), INV],
    ('4/m', 'std'): [M([[0, -1, 0], [1, 0, 0], [0, 0, 1]]), INV],
    ('4/mmm', 'std'): [M([[0, -1, 0], [1, 0, 0], [0, 0, 1]]), M([[1, 0, 0], [0, -1, 0], [0, 0, -1]]), INV],
    ('-3', 'std'): [M([[0, -1, 0], [1, -1, 0], [0, 0, 1]]), INV],
    ('-3m1', 'std'): [M([[0, -1, 0], [1, -1, 0], [0, 0, 1]]), M([[0, 1, 0], [1, 0, 0], [0, 0, -1]]), INV],
    ('-31m', 'std'): [M([[0, -1, 0], [1, -1, 0], [0, 0, 1]]), M([[0, -1, 0], [-1, 0, 0], [0, 0, -1]]), INV],
    ('6/m', 'std'): [M([[1, -1, 0], [1, 0, 0], [0, 0, 1]]), INV],
    ('6/mmm', 'std'): [M([[1, -1, 0], [1, 0, 0], [0, 0, 1]]), M([[0, 1, 0], [1, 0, 0], [0, 0, -1]]), INV],
    ('m-3', 'std'): [M([[0, 0, 1], [1, 0, 0], [0, 1, 0]]), M([[-1, 0, 0], [0, -1, 0], [0, 0, 1]]), INV],
    ('m-3m', 'std'): [M([[0, 0, 1], [1, 0, 0], [0, 1, 0]]), M([[0, -1, 0], [1, 0, 0], [0, 0, 1]]), INV],
    ('-3', 'rhombohedral'): [M([[0, 0, 1], [1, 0, 0], [0, 1, 0]]), INV],
    ('-3m', 'rhombohedral'): [M([[0, 0, 1], [1, 0, 0], [0, 1, 0]]), M([[0, -1, 0], [-1, 0, 0], [0, 0, -1]]), INV],
}
LAUE_ORDER = {'-1': 2, '2/m': 4, 'mmm': 8, '4/m': 8, '4/mmm': 16, '-3': 6, '-3m1': 12, '-31m': 12, '-3m': 12,
              '6/m': 12, '6/mmm': 24, 'm-3': 24, 'm-3m': 48}
SYSTEM_OF = {'-1': 'triclinic', '2/m': 'monoclinic', 'mmm': 'orthorhombic', '4/m': 'tetragonal',
             '4/mmm': 'tetragonal', '-3': 'trigonal', '-3m1': 'trigonal', '-31m': 'trigonal', '-3m': 'trigonal',
             '6/m': 'hexagonal', '6/mmm': 'hexagonal', 'm-3': 'cubic', 'm-3m': 'cubic'}


def E(i, j):
    m = np.zeros((3, 3), dtype=int)
    m[i, j] = m[j, i] = 1
    return m


# bases (times 2, to stay in the integers) of the linear space of metric tensors of conforming cells
METRIC_BASIS = {
    'triclinic': [2 * E(0, 0), 2 * E(1, 1), 2 * E(2, 2), E(0, 1), E(0, 2), E(1, 2)],
    'monoclinic': [2 * E(0, 0), 2 * E(1, 1), 2 * E(2, 2), E(0, 2)],                 # unique axis b
    'orthorhombic': [2 * E(0, 0), 2 * E(1, 1), 2 * E(2, 2)],
    'tetragonal': [2 * E(0, 0) + 2 * E(1, 1), 2 * E(2, 2)],
    'hexagonal_axes': [2 * E(0, 0) + 2 * E(1, 1) - E(0, 1), 2 * E(2, 2)],          # a=b, gamma=120
    'rhombohedral_axes': [2 * I3, E(0, 1) + E(0, 2) + E(1, 2)],                      # a=b=c, alpha=beta=gamma
    'cubic': [2 * I3],
}


def closure(gens):
    elems = {tuple(I3.flatten())}
    frontier = [I3]
    while frontier:
        new = []
        for a in frontier:
            for g in gens:
                b = a.dot(g)
                k = tuple(b.flatten())
                if k not in elems:
                    elems.add(k)
                    new.append(b)
        frontier = new
    return elems


def table_obligations(name, setting, o):
    """the class invariant well_formed(SgN) for one table, clause by clause"""
    tag = 'sglib.%s[%s]' % (name, setting)
    rot = np.array(o.rot, dtype=int)
    n = len(o.rot)
    yield tag + '.lengths', n == len(o.trans) == o.nsymop, 'len(rot)=%d len(trans)=%d nsymop=%d' % (n, len(o.trans), o.nsymop)
    if not (n == len(o.trans) == o.nsymop) or n == 0:
        return
    yield tag + '.integer_rotations', bool(np.all(rot == np.array(o.rot))) and rot.shape == (n, 3, 3), 'non-integer rotation entry'
    t24 = np.zeros((n, 3), dtype=int)
    worst = Fraction(0)
    for i, t in enumerate(o.trans):
        for j, x in enumerate(t):
            k, err = sgtables.snap24(x)
            t24[i, j] = k % 24
            worst = max(worst, err)
    yield tag + '.translations_on_24_grid', worst <= Fraction(1, 10 ** 6), 'worst distance to n/24: %s' % float(worst)
    keys = [tuple(rot[i].flatten()) + tuple(t24[i]) for i in range(n)]
    idkey = tuple(I3.flatten()) + (0, 0, 0)
    yield tag + '.identity_present', idkey in keys, 'no identity operation'
    yield tag + '.no_duplicates', len(set(keys)) == n, 'duplicate operations: %d distinct of %d' % (len(set(keys)), n)
    keyset = set(keys)
    # closure under composition modulo lattice translations: (Ri,ti)(Rj,tj) = (Ri Rj, Ri tj + ti)
    R2 = np.einsum('iab,jbc->ijac', rot, rot).reshape(n * n, 9)
    T2 = (np.einsum('iab,jb->ija', rot, t24) + t24[:, None, :]) % 24
    T2 = T2.reshape(n * n, 3)
    prod = np.concatenate([R2, T2], axis=1)
    bad = None
    for idx, row in enumerate(map(tuple, prod.tolist())):
        if row not in keyset:
            bad = divmod(idx, n)
            break
    yield (tag + '.closed', bad is None, '' if bad is None else 'op %d . op %d is not in the table' % bad,
           None if bad is None else {'table': name, 'setting': setting, 'i': bad[0], 'j': bad[1]})
    # inverses
    dets = np.round(np.linalg.det(rot)).astype(int)
    yield tag + '.unimodular', bool(np.all(np.abs(dets) == 1)), 'a rotation has |det| != 1'
    missing = None
    for i in range(n):
        Ri = np.round(np.linalg.inv(rot[i])).astype(int)
        ti = (-Ri.dot(t24[i])) % 24
        if tuple(Ri.flatten()) + tuple(ti) not in keyset:
            missing = i
            break
    yield tag + '.inverses_present', missing is None, 'inverse of op %s missing' % missing
    # nuniq / centring
    allrots = {tuple(r.flatten()) for r in rot}
    first = [tuple(r.flatten()) for r in rot[:o.nuniq]]
    yield tag + '.nuniq_distinct_and_complete', len(set(first)) == o.nuniq and set(first) == allrots, \
        'first nuniq=%d rotations: %d distinct, table has %d distinct rotations' % (o.nuniq, len(set(first)), len(allrots))
    ncen = sum(1 for i in range(n) if tuple(rot[i].flatten()) == tuple(I3.flatten()))
    yield tag + '.nsymop_is_nuniq_times_centring', o.nsymop == o.nuniq * ncen, 'nsymop=%d nuniq=%d centring=%d' % (o.nsymop, o.nuniq, ncen)
    # Laue class
    laue = set(allrots) | {tuple((-np.array(r)).tolist()) for r in allrots}
    yield tag + '.laue_order', o.Laue in LAUE_ORDER and len(laue) == LAUE_ORDER.get(o.Laue), \
        'Laue %r: |rot U -rot| = %d' % (o.Laue, len(laue))
    gkey = (o.Laue, 'rhombohedral' if o.cell_choice == 'rhombohedral' else 'std')
    ref = closure(GEN[gkey]) if gkey in GEN else None
    yield tag + '.laue_group_is_standard_setting', ref is not None and laue == ref, \
        'rotations plus inversion are not the Laue group %r in its standard setting' % (gkey,)
    yield tag + '.crystal_system_matches_laue', SYSTEM_OF.get(o.Laue) == o.crystal_system, \
        'Laue %r with crystal system %r' % (o.Laue, o.crystal_system)
    # metric preservation for every conforming cell (linear in the metric: check a basis)
    if o.cell_choice == 'rhombohedral':
        basis = METRIC_BASIS['rhombohedral_axes']
    elif o.crystal_system in ('trigonal', 'hexagonal'):
        basis = METRIC_BASIS['hexagonal_axes']
    else:
        basis = METRIC_BASIS[o.crystal_system]
    okm = all(np.array_equal(r.T.dot(G).dot(r), G) for r in rot for G in basis)
    yield tag + '.preserves_conforming_metrics', okm, "R' G R != G for a conforming metric tensor"
    yield tag + '.syscond_shape', len(o.syscond) == 26 and all(isinstance(x, int) and x >= 0 for x in o.syscond), 'syscond must be 26 non-negative ints'


def all_tables(tier, seed):
    src = Source()
    uses = sgtables.cell_choice_uses(src)
    yield ('sglib.cell_choice_only_tested_for_equality_with_rhombohedral',
           set(uses) <= {"self.cell_choice == 'rhombohedral'"}, 'other uses: %r' % uses)
    tabs = sgtables.tables(src)
    yield 'sglib.number_of_tables', len(tabs) == 237, 'found %d tables' % len(tabs)
    nums = sorted({o.no for _, _, o in tabs})
    yield 'sglib.numbers_1_to_230', nums == list(range(1, 231)), 'numbers: %d distinct' % len(nums)
    for name, setting, o in tabs:
        yield 'sglib.%s[%s].number_matches_class' % (name, setting), name == 'Sg%d' % o.no, 'class %s has no=%r' % (name, o.no)
        yield from table_obligations(name, setting, o)


def name_lookup(tier, seed):
    """sg.sg(): the real constructor, run on every key of sgdic and on whitespace/case variants"""
    import importlib
    import random
    src = Source()
    fd = src.funcdef('sg', 'sg.__init__')
    txt = ast.unparse(fd)
    norm = 'sub(\'\\\\s+\', \'\', sgname).lower()'
    uses = [ast.unparse(n) for n in ast.walk(fd) if isinstance(n, ast.Name) and n.id == 'sgname']
    rest = txt.replace(norm, '')
    leftovers = re.findall(r'\bsgname\b', rest)
    # the only other use allowed is the `sgname != None` test
    yield ('sg.sg.__init__.name_used_only_through_whitespace_and_case_normalisation',
           len(leftovers) == rest.count('sgname != None') + 1, 'uses of sgname outside sub(...).lower(): %r' % leftovers)
    sgmod = importlib.import_module('xfab.sg')
    rng = random.Random(seed)
    keys = list(sgmod.sgdic.keys())
    yield 'sg.sgdic.number_of_keys', len(keys) >= 230, '%d keys' % len(keys)

    def same(a, b):
        return (a.no == b.no and a.name == b.name and a.nsymop == b.nsymop and a.nuniq == b.nuniq and
                a.Laue == b.Laue and a.crystal_system == b.crystal_system and a.cell_choice == b.cell_choice and
                np.array_equal(a.rot, b.rot) and np.array_equal(a.trans, b.trans) and
                np.array_equal(a.syscond, b.syscond))
    seen_no = set()
    for k in keys:
        tag = 'sg.sg[%s]' % k
        try:
            byname = sgmod.sg(sgname=k)
        except Exception as e:
            yield tag + '.constructs', False, repr(e)
            continue
        no = int(sgmod.sgdic[k][2:])
        seen_no.add(no)
        rh = k[0] == 'r' and k[-1] == 'r'
        bynum = sgmod.sg(sgno=no, cell_choice='rhombohedral' if rh else 'standard')
        yield tag + '.by_name_equals_by_number', same(byname, bynum), 'sg(sgname=%r) differs from sg(sgno=%d)' % (k, no)
        yield tag + '.number_is_class_number', byname.no == no, 'no=%r' % byname.no
        # whitespace / case variants
        var = ''.join((' ' if rng.random() < 0.3 else '') + (c.upper() if rng.random() < 0.5 else c) for c in k) + ' '
        try:
            byvar = sgmod.sg(sgname=var)
            okv = same(byname, byvar)
        except Exception as e:
            okv = False
        yield tag + '.variant_spelling_equals', okv, 'variant %r' % var
        if k[0] == 'r' and k[-1] in 'hr':
            yield tag + '.setting_suffix', byname.cell_choice == ('rhombohedral' if k[-1] == 'r' else 'hexagonal'), \
                'cell_choice=%r' % byname.cell_choice
    # every table is found under its own (normalised) name, and every key is the name of its table
    # up to the R-setting suffix h/r
    own = {}
    for name, setting, o in sgtables.tables(src):
        nk = re.sub(r'\s+', '', o.name).lower()
        own.setdefault(name, set()).add(nk)
        yield 'sg.sgdic[%s].own_name_finds_table' % nk, sgmod.sgdic.get(nk) == name, \
            'table %s is named %r but sgdic[%r] = %r' % (name, o.name, nk, sgmod.sgdic.get(nk))
    for k in keys:
        cls = sgmod.sgdic[k]
        cands = own.get(cls, set())
        okk = k in cands or (k[-1] in 'hr' and k[:-1] in {c.rstrip('hr') if c[-1] in 'hr' else c for c in cands}) \
            or (k + 'h') in cands or (k + 'r') in cands
        yield 'sg.sgdic[%s].key_is_a_name_of_its_table' % k, okk, 'key %r maps to %s whose names are %r' % (k, cls, sorted(cands))
    yield 'sg.sgdic.covers_all_230', seen_no == set(range(1, 231)), 'missing numbers: %r' % sorted(set(range(1, 231)) - seen_no)


def units(tier):
    return [GroundUnit('sglib.tables', all_tables, [{'module': 'sglib', 'name': '237 Sg classes'}]),
            GroundUnit('sg.lookup', name_lookup, [{'module': 'sg', 'name': 'sg.__init__'}])]


def main(tier, seed, write_baseline=False):
    return Rn.run_property(
        'C04', units(tier), tier, seed, level='proof',
        assumptions=['the Sg classes only assign literals: they are executed (CPython) and every clause is a closed '
                     'formula evaluated exactly in the integers (translations snapped to n/24, |err| <= 1e-6 checked)',
                     'finite cancellative monoid => group (identity, closure, no duplicates; inverses are also checked directly)',
                     'reference Laue groups: generated from the generators of the International Tables standard settings '
                     '(written in checks/C04.py)',
                     'name lookup: the real sg.sg constructor is run on every key of sgdic and on one random whitespace/case '
                     'variant per key; that all variants agree follows from the syntactic obligation that sgname is used '
                     'only through sub("\\s+","",sgname).lower()'],
        trusted=['CPython', 'numpy integer arithmetic'], write_baseline=write_baseline,
        extra_cov={'exhaustive': True})
