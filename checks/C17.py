"""C17 -- CIF and PDB ingestion reproduces what the file states

Bounded stand-in: parsing (PyCifRW, string slicing of PDB columns) is outside what the sidecar verifier models.
Generated well-formed CIF blocks and PDB files are read with the real build_atomlist (under /venv/bin/python,
which has PyCifRW) and compared field by field with what the file states."""
import json
import os
import subprocess

from .common import *
from pyvc.runner import Unit, VERIF


class IngestUnit(Unit):
    kind = 'bounded'

    def label(self):
        return 'bounded.structure.cif_pdb_ingestion'

    def run(self, tier, seed):
        n = 1600 if tier == 'quick' else 12000
        procs = 16
        per = n // procs
        src = os.environ.get('XFAB_SRC', '/repo')
        ps = []
        for i in range(procs):
            ps.append(subprocess.Popen(['/venv/bin/python', '-W', 'ignore', os.path.join(VERIF, 'native', 'c17_ingest.py'), str(per), str(seed * 100 + i)],
                                       stdout=subprocess.PIPE, stderr=subprocess.PIPE, text=True, env=dict(os.environ, PYTHONPATH=src)))
        total, fails, syms = 0, [], set()
        errors = []
        for p in ps:
            out, err = p.communicate(timeout=3000)
            try:
                d = json.loads(out.strip().splitlines()[-1])
            except Exception:
                errors.append((out + err)[-400:])
                continue
            total += d['n']
            fails += d['failures']
            syms |= set(d['failing_symbols'])
        multi = []
        seen = set()
        for f in fails:
            key = (f['kind'], f.get('symbol_in_file') or f['group'], f['problem'].split(' for ')[0][:40])
            if key in seen:
                continue
            seen.add(key)
            multi.append({'name': '%s[%s]' % (f['kind'], (f.get('symbol_in_file') or f['group']).replace(' ', '_')), 'failure': f})
        out = {'unit': self.label(), 'functions': [], 'obligations': [], 'notes': [], 'validation': None, 'native': None,
               'bounded_multi': multi,
               'bounded': {'name': 'structure.cif_pdb_ingestion', 'samples': total, 'failures': [],
                           'what': 'generated CIF blocks (any cell, any of the 230 symbols with random blanks, 1..12 atoms, adp type Uiso/Biso/Uani or '
                                   'Bani/absent, esds, occupancy, multiplicity key in both spellings, atom-type loop with/without dispersion, extra '
                                   'global block) and PDB files (CRYST1/SCALE/ATOM/HETATM, full Hermann-Mauguin symbols of the 223 non-R groups) read '
                                   'by the real CIFread / PDBread and compared with the file contents'}}
        if errors:
            out['obligations'].append({'name': 'bounded.structure.cif_pdb_ingestion.harness', 'status': 'error', 'kind': 'engine', 'backend': '',
                                       'seconds': 0, 'detail': errors[0]})
        return out


def units(tier):
    return [IngestUnit()]


def main(tier, seed, write_baseline=False):
    return Rn.run_property('C17', units(tier), tier, seed, level='exploration',
                           assumptions=['bounded stand-in only: no contract is discharged deductively (CIF parsing is done by PyCifRW, PDB parsing by '
                                        'column slicing and float(); neither is modelled)',
                                        'the expected values are what the generator wrote into the file; site multiplicities are exact orbit sizes '
                                        'from the group operations'],
                           trusted=['CPython', 'PyCifRW'], write_baseline=write_baseline)
