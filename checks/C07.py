"""C07 -- structure factors transform correctly under the space-group operations"""
import cmath
import math
import multiprocessing as mp
import os
import random

import numpy as np

from .common import *
from contracts import structure as CS
from contracts.specs import *
from pyvc.engine import Vec, Mat, Real, Int
from pyvc.runner import Unit
from pyvc import sgtables
from pyvc.source import Source


def _req(*a):
    return ()


def lemma_phase(ns, h, R, Rj, t, tj, x):
    """(hR).(Rj x + tj) == h.((R Rj) x + (R tj + t)) - h.t :
    the phase of term j at hR is the phase of the composed operation (R,t)o(Rj,tj) at h, minus 2 pi h.t"""
    hR = mv(tr(R), h)
    lhs = sum(a * b for a, b in zip(hR, [u + v for u, v in zip(mv(Rj, x), tj)]))
    RRj = mm(R, Rj)
    comp = [u + v + w for u, v, w in zip(mv(RRj, x), mv(R, tj), t)]
    rhs = sum(a * b for a, b in zip(h, comp)) - sum(a * b for a, b in zip(h, t))
    yield 'phase_of_composed_operation', Eq(lhs, rhs)


def lemma_adp(ns, h, R, Rj, beta):
    """(hR) (Rj beta Rj') (hR)' == h ((R Rj) beta (R Rj)') h' : the Debye-Waller exponent of term j at hR is
    that of the composed operation at h"""
    hR = mv(tr(R), h)
    b1 = mm(Rj, mm(beta, tr(Rj)))
    lhs = sum(a * b for a, b in zip(hR, mv(b1, hR)))
    RRj = mm(R, Rj)
    b2 = mm(RRj, mm(beta, tr(RRj)))
    rhs = sum(a * b for a, b in zip(h, mv(b2, h)))
    yield 'adp_exponent_of_composed_operation', Eq(lhs, rhs)


def _sf_job(args):
    ti, seed = args
    import xfab.structure as S
    import xfab.tools as tools
    src = Source()
    name, setting, o = [t for t in sgtables.tables(src) if t[1] == 'standard'][ti]
    rng = random.Random(seed * 31 + ti)
    from checks.C05 import conforming_cell, _t24
    from pyvc import hklmodel as H
    t24 = _t24(o)
    cell = conforming_cell(rng, o)
    fails = []
    n = 0
    atoms = []
    for i in range(3):
        pos = [rng.random() for _ in range(3)]
        if rng.random() < 0.5:
            adp_type, adp = 'Uiso', rng.uniform(0.005, 0.05)
        else:
            A = np.array([[rng.uniform(-1, 1) for _ in range(3)] for _ in range(3)])
            Um = 0.01 * (A.dot(A.T) + 0.5 * np.eye(3))
            adp_type, adp = 'Uani', [Um[0, 0], Um[1, 1], Um[2, 2], Um[1, 2], Um[0, 2], Um[0, 1]]
        atoms.append(S.atom_entry(label='a%d' % i, atomtype=rng.choice(['C', 'O', 'FE', 'SI']), pos=pos, adp_type=adp_type,
                                  adp=adp, occ=rng.uniform(0.2, 1.0), symmulti=o.nsymop))
    if adp_type == 'Uani' and o.crystal_system != 'triclinic':
        pass
    # an anisotropic tensor on a general position is unconstrained: fine for every group
    power = sum(a.occ * 26 * o.nsymop for a in atoms)
    tol = 1e-9 * power + power * 2 * math.pi * 30 * 4e-7      # scattering power x 6-digit rounding of thirds/sixths
    for _ in range(6):
        h = [rng.randint(-8, 8) for _ in range(3)]
        Fh = complex(*S.StructureFactor(h, cell, o.name, atoms))
        Fm = complex(*S.StructureFactor([-x for x in h], cell, o.name, atoms))
        n += 2
        if abs(Fm - Fh.conjugate()) > tol:
            fails.append({'group': o.name, 'sgno': o.no, 'hkl': h, 'problem': 'F(-h) != conj F(h) without dispersion',
                          'diff': abs(Fm - Fh.conjugate())})
            break
        if H.extinct_concrete(h, o.rot, t24) and abs(Fh) > tol:
            fails.append({'group': o.name, 'sgno': o.no, 'hkl': h, 'problem': 'extinct reflection has F != 0', '|F|': abs(Fh)})
            break
        for j in rng.sample(range(o.nsymop), min(4, o.nsymop)):
            R = np.array(o.rot[j], dtype=int)
            t = np.array(o.trans[j], float)
            hR = [int(x) for x in np.array(h).dot(R)]
            FhR = complex(*S.StructureFactor(hR, cell, o.name, atoms))
            n += 1
            exp = Fh * cmath.exp(-2j * math.pi * float(np.dot(h, t)))
            if abs(FhR - exp) > tol:
                fails.append({'group': o.name, 'sgno': o.no, 'hkl': h, 'op': j, 'hR': hR, 'cell': cell,
                              'problem': 'F(hR) != F(h) exp(-2 pi i h.t)', 'diff': abs(FhR - exp), 'tolerance': tol,
                              'adp_types': [a.adp_type for a in atoms]})
                break
        if fails:
            break
    return n, fails


class LawUnit(Unit):
    kind = 'bounded'

    def label(self):
        return 'bounded.structure.transformation_law_all_groups'

    def run(self, tier, seed):
        ntab = 230
        reps = 1 if tier == 'quick' else 8
        jobs = [(i, seed + r) for i in range(ntab) for r in range(reps)]
        with mp.get_context('fork').Pool(int(os.environ.get('PYVC_PROCS', '16'))) as pool:
            res = pool.map(_sf_job, jobs, chunksize=4)
        fails = [f for r in res for f in r[1]]
        return {'unit': self.label(), 'functions': [], 'obligations': [], 'notes': [], 'validation': None, 'native': None,
                'bounded': {'name': 'structure.transformation_law_all_groups', 'samples': sum(r[0] for r in res), 'failures': fails[:3],
                            'what': 'for all 230 groups by name: 3 random general-position atoms (Uiso or positive-definite Uani, occupancy in '
                                    '(0.2,1]), hkl in a box of +-8: F(hR) = F(h) exp(-2 pi i h.t) for sampled operations, F(-h) = conj F(h), '
                                    'extinct reflections have F = 0; tolerance = scattering power x (1e-9 + 2 pi 30 x 4e-7)'}}


def units(tier):
    H3 = Vec(3, Real(-8, 8), as_list=True)
    M3 = Mat(3, 3, Real(-1, 1))
    us = [FuncUnit('structure', k) for k in CS.SF_VARIANTS]
    us.append(FuncUnit('structure', 'Uij2betaij'))
    us.append(LemmaUnit('phase_under_composition', 'structure',
                        [('h', H3), ('R', M3), ('Rj', M3), ('t', H3), ('tj', H3), ('x', H3)], _req, lemma_phase))
    us.append(LemmaUnit('adp_under_composition', 'structure',
                        [('h', H3), ('R', M3), ('Rj', M3), ('beta', M3)], _req, lemma_adp))
    us.append(LawUnit())
    return us


def main(tier, seed, write_baseline=False):
    return Rn.run_property('C07', units(tier), tier, seed, level='proof',
                           assumptions=COMMON + ['StructureFactor is verified on instances with 2 atoms x 2 operations whose data are fully '
                                                 'symbolic (positions, occupancies, ADPs, f\', f\'\', operation matrices and translations, hkl, cell); '
                                                 'the loops over atoms and operations are unrolled for these counts (bound: 2 x 2) -- the body does '
                                                 'not depend on the indices other than through the data',
                                                 'exp, cos, sin of general arguments and FormFactor are uninterpreted functions (congruence on '
                                                 'arguments that z3 confirms to be identical rational functions)',
                                                 'the transformation law follows from: result == explicit sum (proved), the two composition lemmas '
                                                 '(proved), closure of each table under composition modulo Z^3 and metric invariance (proved under C04), '
                                                 '2 pi-periodicity of exp(i.) (trig axiom) -- this last assembly step is on paper; it is exercised by the '
                                                 'bounded stand-in over all 230 groups'],
                           trusted=TRUSTED, write_baseline=write_baseline)
