"""Algebraic micro-lemmas (pure statements over the reals) and their use.

A micro-lemma is a Python function  fn(*terms) -> (premises, conclusion)  building formulas from its arguments.
  * `unit(name, fn, n)` is the LemmaUnit that proves it once and for all: the arguments are n fresh real symbols,
    the premises are assumed, the conclusion is the obligation (few symbols, few hypotheses: milliseconds to seconds).
  * `use(name, fn, *terms)` instantiates it inside a larger argument: each premise becomes an obligation there (it is
    normally a fact already, or follows from one by linear arithmetic) and the conclusion is then assumed.  Premises
    and conclusion at the use site are built by the very function the unit proves, so the instance is an instance.
This is the lemma-call rule of deductive verifiers (Dafny `lemma`, Why3 `lemma function`) in sidecar form."""
from pyvc import terms as T
from pyvc.engine import Real
from pyvc.runner import LemmaUnit


def unit(name, fn, n, module='tools'):
    sig = [('x%d' % i, Real(0.1, 3.0)) for i in range(n)]

    def req(*a):
        prem, concl = fn(*a)
        for i, p in enumerate(prem):
            yield 'premise_%d' % i, p

    def body(ns, *a):
        prem, concl = fn(*a)
        for i, cl in enumerate(T.flatten_conj(concl) if not isinstance(concl, list) else concl):
            yield 'conclusion_%d' % i, cl
    return LemmaUnit('algebra.' + name, module, sig, req, body)


def use(name, fn, *terms):
    prem, concl = fn(*terms)
    for i, p in enumerate(prem):
        yield 'use.%s.premise_%d' % (name, i), p
    T.ctx().assume(T.And(*concl) if isinstance(concl, list) else concl)


Eq = T.Eq


# ---------------------------------------------------------------------------
# the lemmas used by C01 (cell_invert is an involution)

def L_scale_cos(x, Sj, Sk, R0, m, si, sj, sk, V):
    """x Sj Sk = R0,  Sj m si sk = V,  Sk m si sj = V   |-   x V V = R0 m m si si sj sk"""
    return [Eq(x * Sj * Sk, R0), Eq(Sj * m * si * sk, V), Eq(Sk * m * si * sj, V)], Eq(x * V * V, R0 * m * m * si * si * sj * sk)


def L_recip_cos_products(Ci, Cj, Ck, si, sj, sk, ni, nj, nk):
    """Cj si sk = nj, Ck si sj = nk, Ci sj sk = ni  |-  (Cj Ck - Ci) si si sj sk = nj nk - ni si si"""
    return [Eq(Cj * si * sk, nj), Eq(Ck * si * sj, nk), Eq(Ci * sj * sk, ni)], \
        Eq((Cj * Ck - Ci) * si * si * sj * sk, nj * nk - ni * si * si)


def L_gram_identity(ci, cj, ck, si, D):
    """si^2 = 1 - ci^2, D = 1 - ci^2 - cj^2 - ck^2 + 2 ci cj ck  |-  (ci ck - cj)(ci cj - ck) - (cj ck - ci) si^2 = ci D"""
    return [Eq(si * si, 1 - ci * ci), Eq(D, 1 - ci * ci - cj * cj - ck * ck + 2 * ci * cj * ck)], \
        Eq((ci * ck - cj) * (ci * cj - ck) - (cj * ck - ci) * si * si, ci * D)


def L_cancel_cos(x, ci, V, m, D, Q, N):
    """x V V = Q m m,  Q = N,  N = ci D,  V V = m m D,  V > 0  |-  x = ci      (Q = R0 si^2 sj sk)"""
    return [Eq(x * V * V, Q * m * m), Eq(Q, N), Eq(N, ci * D), Eq(V * V, m * m * D), V > 0], Eq(x, ci)


def L_sqrt_closed(r, Ds, p, D):
    """r^2 = Ds, Ds p^2 = D^2, r >= 0, p > 0, D > 0  |-  r p = D"""
    return [Eq(r * r, Ds), Eq(Ds * p * p, D * D), r >= 0, p > 0, D > 0], Eq(r * p, D)


def L_recip_volume(Vs, As, Bs, Cs, r, V, a, b, c, sa, sb, sg, D):
    """Vs = As Bs Cs r; As V = b c sa; Bs V = a c sb; Cs V = a b sg; r sa sb sg = D; V V = (a b c)^2 D; V > 0  |-  Vs V = 1"""
    return [Eq(Vs, As * Bs * Cs * r), Eq(As * V, b * c * sa), Eq(Bs * V, a * c * sb), Eq(Cs * V, a * b * sg),
            Eq(r * sa * sb * sg, D), Eq(V * V, a * b * c * a * b * c * D), V > 0], Eq(Vs * V, 1)


def L_length_back(y, Vs, Bs, Cs, S, V, a, b, c, sb, sg):
    """y Vs = Bs Cs S; Bs V = a c sb; Cs V = a b sg; S a b c sb sg = V; Vs V = 1; all positive  |-  y = a"""
    return [Eq(y * Vs, Bs * Cs * S), Eq(Bs * V, a * c * sb), Eq(Cs * V, a * b * sg), Eq(S * a * b * c * sb * sg, V), Eq(Vs * V, 1),
            V > 0, a > 0, b > 0, c > 0, sb > 0, sg > 0], Eq(y, a)


def L_gram_star(Ca, Cb, Cg, ca, cb, cg, sa, sb, sg):
    """Ca sb sg = cb cg - ca (and cyclic), s^2 = 1 - c^2
       |-  (1 - Ca^2 - Cb^2 - Cg^2 + 2 Ca Cb Cg) (sa sb sg)^2 = (1 - ca^2 - cb^2 - cg^2 + 2 ca cb cg)^2"""
    D = 1 - ca * ca - cb * cb - cg * cg + 2 * ca * cb * cg
    Ds = 1 - Ca * Ca - Cb * Cb - Cg * Cg + 2 * Ca * Cb * Cg
    p = sa * sb * sg
    return [Eq(Ca * sb * sg, cb * cg - ca), Eq(Cb * sa * sg, ca * cg - cb), Eq(Cg * sa * sb, ca * cb - cg),
            Eq(sa * sa, 1 - ca * ca), Eq(sb * sb, 1 - cb * cb), Eq(sg * sg, 1 - cg * cg)], Eq(Ds * p * p, D * D)


C01_LEMMAS = [('gram_star', L_gram_star, 9), ('scale_cos', L_scale_cos, 9), ('recip_cos_products', L_recip_cos_products, 9), ('gram_identity', L_gram_identity, 5),
              ('cancel_cos', L_cancel_cos, 7), ('sqrt_closed', L_sqrt_closed, 4), ('recip_volume', L_recip_volume, 13),
              ('length_back', L_length_back, 11)]


# ---------------------------------------------------------------------------
# lemmas with an explicit certificate
#
# fn(*terms) -> (eq_premises [(l, r)], side_premises [formula], conclusions [(l, r, mult, cofactors)])
# Proof rule (the one pyvc/cert.py implements, here with the cofactors written down by the lemma's author instead of
# searched for):   mult.(l - r) == sum_j cofactors[j].(pl_j - pr_j)  as a hypothesis-free polynomial identity,
#                  mult != 0 under the premises    |-    premises => l == r.
# The identity is built HERE from the conclusion and the premises (the author supplies only mult and the cofactors);
# both steps are obligations decided by z3; a wrong cofactor makes the identity fail, it cannot make a false
# conclusion pass.

def unit_explicit(name, fn, n, module='tools'):
    sig = [('x%d' % i, Real(0.1, 3.0)) for i in range(n)]

    def req(*a):
        return iter(())

    def body(ns, *a):
        eqp, side, concl = fn(*a)
        for i, (l, r, mult, cof) in enumerate(concl):
            assert len(cof) == len(eqp)
            acc = 0 * mult
            for cj, (pl, pr) in zip(cof, eqp):
                if cj is not None:
                    acc = acc + cj * (pl - pr)
            yield 'conclusion_%d.certificate_identity' % i, Eq(mult * (l - r), acc)
        cx = T.ctx()
        for s in side:
            cx.assume(s)
        seen = set()
        for i, (l, r, mult, cof) in enumerate(concl):
            key = str(getattr(mult, 'z', mult))
            if key in seen:
                continue
            seen.add(key)
            yield 'conclusion_%d.multiplier_nonzero' % i, T.Not(Eq(mult, 0))      # from the side premises alone
    return LemmaUnit('algebra.' + name, module, sig, req, body)


def use_explicit(name, fn, *terms):
    eqp, side, concl = fn(*terms)
    for i, (pl, pr) in enumerate(eqp):
        yield 'use.%s.premise_%d' % (name, i), Eq(pl, pr)
    for i, s in enumerate(side):
        yield 'use.%s.side_premise_%d' % (name, i), s
    T.ctx().assume(T.And(*[Eq(l, r) for (l, r, _m, _c) in concl]))


def _m3(xs):
    xs = list(xs)
    return [xs[0:3], xs[3:6], xs[6:9]]


def _mm(A, B):
    return [[A[i][0] * B[0][j] + A[i][1] * B[1][j] + A[i][2] * B[2][j] for j in range(3)] for i in range(3)]


def _tr(A):
    return [[A[j][i] for j in range(3)] for i in range(3)]


def L_ubi_metric(*a):
    """X (U B) = k I,  (U B) X = k I,  U'U = I,  (B'B) G = k^2 I,  k > 0   |-   X X' = G           (a: X, U, B, G row-major, k)
    With M = U B, E1 = X M - k I, E2 = M X - k I, E3 = U'U - I, E4 = B'B G - k^2 I:
        k^2 (X X' - G) = k E1 G + X E2' M G - X X' E4 - X X' B' E3 B G."""
    X, U, Bm, Gm, k = _m3(a[0:9]), _m3(a[9:18]), _m3(a[18:27]), _m3(a[27:36]), a[36]
    M = _mm(U, Bm)
    XM, MX, UtU, BBG = _mm(X, M), _mm(M, X), _mm(_tr(U), U), _mm(_mm(_tr(Bm), Bm), Gm)
    one = 1 + 0 * k
    zero = 0 * k
    idx = [(p, q) for p in range(3) for q in range(3)]
    eqp = [(XM[p][q], k if p == q else zero) for p, q in idx] + [(MX[p][q], k if p == q else zero) for p, q in idx] + \
          [(UtU[p][q], one if p == q else zero) for p, q in idx] + [(BBG[p][q], k * k if p == q else zero) for p, q in idx]
    XXt = _mm(X, _tr(X))
    MG = _mm(M, Gm)
    XXtBt = _mm(XXt, _tr(Bm))
    BG = _mm(Bm, Gm)
    concl = []
    for i in range(3):
        for j in range(3):
            c1 = [(k * Gm[q][j]) if p == i else None for p, q in idx]            # (k E1 G)_ij   = k sum_q E1_iq G_qj
            c2 = [X[i][q] * MG[p][j] for p, q in idx]                             # (X E2' M G)_ij = sum X_iq E2_pq (MG)_pj
            c3 = [-(XXtBt[i][p] * BG[q][j]) for p, q in idx]                      # -(X X' B' E3 B G)_ij
            c4 = [(-XXt[i][p]) if q == j else None for p, q in idx]               # -(X X' E4)_ij
            concl.append((XXt[i][j], Gm[i][j], k * k, c1 + c2 + c3 + c4))
    return eqp, [k > 0], concl
