"""C05 -- genhkl_all returns exactly the reflections the space group allows in the shell

layer (i)   sysabs (real code, if-converted, symbolic hkl) == extinction by the group's own operators,
            for ALL integer hkl inside the segment cones the traversal feeds to it  (z3, linear integers,
            split by residue class modulo the group's period)
layer (ii)  segment tables: every Laue orbit of h != 0 meets the union of cones in exactly one point (z3 LIA)
layer (iii) traversal + expansion: bounded stand-in against an exact brute-force oracle (known findings)
"""
import itertools
import math
import multiprocessing as mp
import os
import random

import numpy as np
import z3

from .common import *
from pyvc import hklmodel as H, sgtables, terms as T
from pyvc.runner import Unit
from pyvc.source import Source

MODULES_QUICK = ('tools', 'laue')


def _t24(o):
    return [[sgtables.snap24(x)[0] for x in t] for t in o.trans]


# ---------------------------------------------------------------------------
# layer (i)

def _sysabs_job(args):
    module, ti = args
    src = Source()
    name, setting, o = sgtables.tables(src)[ti]
    sa = H.compile_sysabs(src, module)
    t24 = _t24(o)
    segm = H.segm_for(src, module, o.Laue, o.cell_choice)
    res = []
    if segm is None:
        return [{'name': '%s.sysabs.matches_operators[%s,%s]' % (module, name, setting), 'status': 'refuted',
                 'detail': 'genhkl_base has no segment table for Laue %r / %r' % (o.Laue, o.cell_choice), 'queries': 0,
                 'witness': {'table': name}}]
    P = H.period(o.syscond, t24)
    import time
    for si, seg in enumerate(segm):
        h0, v1, v2, v3 = seg
        t0 = time.time()
        nq = 0
        wit = None
        status = 'discharged'
        detail = ''
        for a in itertools.product(range(P), repeat=3):
            c = T.Ctx()
            T.set_ctx(c)
            try:
                i, j, k = [T.integer(x) for x in 'ijk']
                ii, jj, kk = P * i + a[0], P * j + a[1], P * k + a[2]
                h = [int(h0[d]) + ii * int(v1[d]) + jj * int(v2[d]) + kk * int(v3[d]) for d in range(3)]
                S = sa(h, list(o.syscond), o.crystal_system, o.cell_choice)
                ext = H.extinct(h, o.rot, t24)
                absent = (S != 0)
                s = z3.Solver()
                s.set('timeout', 20000)
                s.add(i.z >= 0, j.z >= 0, k.z >= 0)
                s.add(z3.Not(T._bz(absent) == T._bz(ext)))
                nq += 1
                r = s.check()
                if r == z3.sat:
                    m = s.model()
                    vals = [m.eval(x.z, model_completion=True).as_long() for x in (i, j, k)]
                    hh = [int(h0[d]) + (P * vals[0] + a[0]) * int(v1[d]) + (P * vals[1] + a[1]) * int(v2[d])
                          + (P * vals[2] + a[2]) * int(v3[d]) for d in range(3)]
                    wit = {'table': name, 'setting': setting, 'sgno': o.no, 'segment': si, 'hkl': hh}
                    status = 'refuted'
                    break
                if r != z3.unsat:
                    status = 'unknown'
                    detail = 'z3: %s in residue class %r' % (r, a)
                    break
            finally:
                T.set_ctx(None)
        if wit is not None:
            # replay on the real function
            import importlib
            mod = importlib.import_module('xfab.' + module)
            nat = int(mod.sysabs(wit['hkl'], np.array(o.syscond), o.crystal_system, o.cell_choice))
            ext_c = H.extinct_concrete(wit['hkl'], o.rot, t24)
            wit['native_sysabs'] = nat
            wit['extinct_by_operators'] = ext_c
            detail = 'hkl %r: sysabs returns %d but the operators %s it' % (wit['hkl'], nat, 'extinguish' if ext_c else 'allow')
            if (nat != 0) == ext_c:
                status, wit = 'error', None
                detail = 'z3 model does not replay on the real sysabs (engine error)'
        res.append({'name': '%s.sysabs.matches_operators[%s,%s,seg=%d]' % (module, name, setting, si), 'status': status,
                    'detail': detail, 'queries': nq, 'witness': wit, 'seconds': round(time.time() - t0, 2), 'period': P})
    return res


class SysabsUnit(Unit):
    kind = 'function'

    def __init__(self, modules):
        self.modules = modules

    def label(self):
        return 'genhkl.sysabs_vs_operators'

    def run(self, tier, seed):
        src = Source()
        ntab = len(sgtables.tables(src))
        jobs = [(m, i) for m in self.modules for i in range(ntab)]
        with mp.get_context('fork').Pool(int(os.environ.get('PYVC_PROCS', '16'))) as pool:
            res = pool.map(_sysabs_job, jobs, chunksize=2)
        obls = []
        nq = 0
        for rr in res:
            for r in rr:
                nq += r.get('queries', 0)
                obls.append({'name': r['name'], 'kind': 'lia', 'backend': 'z3-lia (residue split, %d queries)' % r.get('queries', 0),
                             'status': r['status'], 'seconds': r.get('seconds', 0.0), 'detail': r['detail'], 'path': '',
                             'model': r['witness'], 'native_witness': None if r['witness'] is None else
                             {'clause': r['name'], 'inputs': r['witness'], 'detail': r['detail']}})
        fns = []
        for m in self.modules:
            for f in ('sysabs', 'sysabs_unique', 'genhkl_base'):
                fns.append({'module': m, 'name': f, 'sha': src.sha(m, f)})
        return {'unit': self.label(), 'functions': fns, 'obligations': obls, 'validation': None, 'native': None,
                'notes': ['sysabs_unique is executed inline (if-converted); %d z3 queries in total' % nq]}


# ---------------------------------------------------------------------------
# layer (ii)

def _cone_membership(h, seg):
    """(conditions, ) for h in h0 + N v1 + N v2 + N v3 ; the v's are unimodular so coefficients are integer forms"""
    h0, v1, v2, v3 = [list(map(int, x)) for x in seg]
    V = np.array([v1, v2, v3], dtype=int).T          # columns
    d = int(round(np.linalg.det(V)))
    assert abs(d) == 1, 'segment basis not unimodular'
    Vi = np.round(np.linalg.inv(V)).astype(int)
    coef = []
    for r in range(3):
        e = 0
        for c in range(3):
            e = e + (h[c] - h0[c]) * int(Vi[r][c])
        coef.append(e)
    return T.And(*[x >= 0 for x in coef])


def _segment_job(args):
    module, laue, cell_choice, rots = args
    src = Source()
    segm = H.segm_for(src, module, laue, cell_choice)
    name = '%s.genhkl_base.segments[%s,%s]' % (module, laue, cell_choice)
    out = []
    try:
        for seg in segm:
            V = np.array(seg[1:], dtype=int)
            if abs(int(round(np.linalg.det(V)))) != 1:
                return [{'name': name + '.unimodular', 'status': 'refuted', 'detail': 'segment %r' % (seg,), 'witness': {'segment': seg}}]
        out.append({'name': name + '.unimodular', 'status': 'discharged', 'detail': '', 'witness': None})
        L = [np.array(r, dtype=int) for r in rots]
        c = T.Ctx()
        T.set_ctx(c)
        try:
            h = [T.integer(x) for x in 'hkl']
            images = [[h[0] * int(R[0][cc]) + h[1] * int(R[1][cc]) + h[2] * int(R[2][cc]) for cc in range(3)] for R in L]
            incone = [T.Or(*[_cone_membership(im, seg) for seg in segm]) for im in images]
            nonzero = T.Or(h[0] != 0, h[1] != 0, h[2] != 0)
            # existence: some image lies in some cone
            s = z3.Solver()
            s.set('timeout', 60000)
            s.add(T._bz(nonzero))
            s.add(z3.Not(z3.Or(*[T._bz(x) for x in incone])))
            r = s.check()
            if r == z3.sat:
                m = s.model()
                hv = [m.eval(x.z, model_completion=True).as_long() for x in h]
                out.append({'name': name + '.every_orbit_meets_a_cone', 'status': 'refuted',
                            'detail': 'no Laue-equivalent of %r lies in any segment cone' % hv, 'witness': {'hkl': hv}})
            else:
                out.append({'name': name + '.every_orbit_meets_a_cone', 'status': 'discharged' if r == z3.unsat else 'unknown',
                            'detail': '' if r == z3.unsat else 'z3: %s' % r, 'witness': None})
            # uniqueness: two images in cones are equal; and a point lies in at most one cone
            bad = None
            stat = 'discharged'
            for a in range(len(L)):
                s = z3.Solver()
                s.set('timeout', 60000)
                s.add(T._bz(nonzero))
                s.add(T._bz(_cone_union_first(h, segm)))          # wlog h itself is in a cone
                s.add(T._bz(incone[a]))
                s.add(z3.Or(*[T._bz(images[a][d] != h[d]) for d in range(3)]))
                r = s.check()
                if r == z3.sat:
                    m = s.model()
                    bad = [m.eval(x.z, model_completion=True).as_long() for x in h]
                    stat = 'refuted'
                    break
                if r != z3.unsat:
                    stat = 'unknown'
                    break
            out.append({'name': name + '.at_most_one_point_per_orbit', 'status': stat,
                        'detail': '' if bad is None else '%r and a different Laue-equivalent are both in the cones' % bad,
                        'witness': None if bad is None else {'hkl': bad}})
            # the cones are pairwise disjoint (a point is emitted by one segment only)
            stat, bad = 'discharged', None
            for a, b in itertools.combinations(range(len(segm)), 2):
                s = z3.Solver()
                s.set('timeout', 60000)
                s.add(T._bz(_cone_membership(h, segm[a])), T._bz(_cone_membership(h, segm[b])))
                r = s.check()
                if r == z3.sat:
                    m = s.model()
                    bad = [m.eval(x.z, model_completion=True).as_long() for x in h]
                    stat = 'refuted'
                    break
                if r != z3.unsat:
                    stat = 'unknown'
            out.append({'name': name + '.cones_disjoint', 'status': stat,
                        'detail': '' if bad is None else '%r lies in two segment cones' % bad,
                        'witness': None if bad is None else {'hkl': bad}})
        finally:
            T.set_ctx(None)
    except Exception as e:
        import traceback
        out.append({'name': name + '.checker', 'status': 'error', 'detail': '%r %s' % (e, traceback.format_exc()), 'witness': None})
    return out


def _cone_union_first(h, segm):
    return T.Or(*[_cone_membership(h, seg) for seg in segm])


class SegmentsUnit(Unit):
    kind = 'function'

    def __init__(self, modules):
        self.modules = modules

    def label(self):
        return 'genhkl.segment_tables'

    def run(self, tier, seed):
        src = Source()
        groups = {}
        for name, setting, o in sgtables.tables(src):
            rot = np.array(o.rot[:o.nuniq], dtype=int)
            L = {tuple(r.flatten()) for r in rot} | {tuple((-r).flatten()) for r in rot}
            key = (o.Laue, o.cell_choice if o.cell_choice == 'rhombohedral' else 'standard')
            groups.setdefault(key, set()).add(frozenset(L))
        jobs = []
        obls = []
        for (laue, cc), sets in sorted(groups.items()):
            obls.append({'name': 'sglib.laue_group_unique_per_class[%s,%s]' % (laue, cc), 'kind': 'ground', 'backend': 'ground-eval',
                         'status': 'discharged' if len(sets) == 1 else 'refuted', 'seconds': 0.0, 'path': '', 'model': None,
                         'detail': '' if len(sets) == 1 else 'tables of one Laue class/setting have different rotation sets'})
            L = [np.array(t).reshape(3, 3).tolist() for t in sorted(next(iter(sets)))]
            for m in self.modules:
                jobs.append((m, laue, cc, L))
        with mp.get_context('fork').Pool(int(os.environ.get('PYVC_PROCS', '16'))) as pool:
            res = pool.map(_segment_job, jobs, chunksize=1)
        for rr in res:
            for r in rr:
                obls.append({'name': r['name'], 'kind': 'lia', 'backend': 'z3-lia', 'status': r['status'], 'seconds': 0.0,
                             'detail': r['detail'], 'path': '', 'model': r['witness'],
                             'native_witness': None if r['witness'] is None else {'clause': r['name'], 'inputs': r['witness'], 'detail': r['detail']}})
        return {'unit': self.label(), 'functions': [{'module': m, 'name': 'genhkl_base', 'sha': src.sha(m, 'genhkl_base')} for m in self.modules],
                'obligations': obls, 'validation': None, 'native': None, 'notes': []}


# ---------------------------------------------------------------------------
# layer (iii): bounded stand-in against the exact oracle

def conforming_cell(rng, o, orthogonal_metric=False):
    a, b, c = [rng.uniform(3.0, 9.0) for _ in range(3)]
    cs = o.crystal_system
    if o.cell_choice == 'rhombohedral':
        al = rng.uniform(50, 110)
        return [a, a, a, al, al, al]
    if cs == 'triclinic':
        return [a, b, c, 90, 90, 90] if orthogonal_metric else [a, b, c, rng.uniform(70, 110), rng.uniform(70, 110), rng.uniform(70, 110)]
    if cs == 'monoclinic':
        return [a, b, c, 90, 90 if orthogonal_metric else rng.uniform(91, 125), 90]
    if cs == 'orthorhombic':
        return [a, b, c, 90, 90, 90]
    if cs == 'tetragonal':
        return [a, a, c, 90, 90, 90]
    if cs in ('trigonal', 'hexagonal'):
        return [a, a, c, 90, 90, 120]
    return [a, a, a, 90, 90, 90]


def oracle_reflections(mod, cell, o, t24, smin, smax):
    """all hkl != 0 with smin < sintl <= smax that no operator extinguishes (brute force over a box)"""
    B = mod.form_b_mat(cell)
    k = 2 * math.pi if mod.__name__.endswith('tools') else 1.0
    G = B.T.dot(B) / (k * k)
    hmax = [int(math.ceil(2 * smax / math.sqrt(1.0 / np.linalg.inv(G)[d, d]))) + 1 for d in range(3)]
    out = {}
    rng = [range(-hm, hm + 1) for hm in hmax]
    hs = np.array(list(itertools.product(*rng)), dtype=int)
    stl = 0.5 * np.sqrt(np.einsum('ni,ij,nj->n', hs, G, hs))
    for hv, s in zip(hs.tolist(), stl.tolist()):
        if hv == [0, 0, 0]:
            continue
        if s > smin * (1 + 1e-9) and s <= smax * (1 - 1e-9):
            if not H.extinct_concrete(hv, o.rot, t24):
                out[tuple(hv)] = s
        elif abs(s - smin) <= 1e-9 * smin or abs(s - smax) <= 1e-9 * smax:
            out[('edge',) + tuple(hv)] = s
    return out


def _traversal_job(args):
    module, ti, seed, ncells, orth = args
    import importlib
    mod = importlib.import_module('xfab.' + module)
    src = Source()
    name, setting, o = sgtables.tables(src)[ti]
    t24 = _t24(o)
    rng = random.Random(seed * 1000 + ti)
    fails = []
    n = 0
    for ci in range(ncells):
        cell = conforming_cell(rng, o, orthogonal_metric=orth)
        smax = rng.uniform(0.25, 0.45)
        smin = rng.choice([0.0, rng.uniform(0.05, 0.2)])
        exp = oracle_reflections(mod, cell, o, t24, smin, smax)
        edges = {k[1:] for k in exp if k and k[0] == 'edge'}
        exp = {k: v for k, v in exp.items() if not (k and k[0] == 'edge')}
        np.random.seed(rng.randrange(2 ** 31))
        cc = 'rhombohedral' if setting == 'rhombohedral' else 'standard'
        got = mod.genhkl_all(cell, smin, smax, sgno=o.no, cell_choice=cc, output_stl=True)
        n += 1
        rows = [tuple(int(round(x)) for x in r[:3]) for r in got]
        gs = set(rows)
        missing = sorted(set(exp) - gs - edges)
        extra = sorted(gs - set(exp) - edges)
        dup = len(rows) != len(gs)
        if missing or extra or dup:
            fails.append({'table': name, 'setting': setting, 'sgno': o.no, 'cell': cell, 'sintlmin': smin, 'sintlmax': smax,
                          'missing': missing[:5], 'n_missing': len(missing), 'extra': extra[:5], 'n_extra': len(extra),
                          'duplicates': dup, 'n_expected': len(exp), 'laue': o.Laue, 'orthogonal_metric': orth})
    return ti, n, fails


class TraversalUnit(Unit):
    kind = 'bounded'

    def __init__(self, module, orth):
        self.module, self.orth = module, orth

    def label(self):
        return 'bounded.%s.genhkl_all_vs_oracle%s' % (self.module, '.orthogonal_metric' if self.orth else '')

    def run(self, tier, seed):
        src = Source()
        tabs = sgtables.tables(src)
        idx = list(range(len(tabs)))
        if self.orth:
            idx = [i for i in idx if tabs[i][2].crystal_system in ('triclinic', 'monoclinic')]
        ncells = 1 if tier == 'quick' else 6
        jobs = [(self.module, i, seed, ncells, self.orth) for i in idx]
        with mp.get_context('fork').Pool(int(os.environ.get('PYVC_PROCS', '16'))) as pool:
            res = pool.map(_traversal_job, jobs, chunksize=2)
        fails = [f for r in res for f in r[2]]
        n = sum(r[1] for r in res)
        return {'unit': self.label(), 'functions': [], 'obligations': [], 'notes': [], 'validation': None, 'native': None,
                'bounded_multi': [{'name': 'genhkl_all_vs_oracle[%s,%s]' % (f['table'], f['setting']), 'failure': f} for f in fails],
                'bounded': {'name': self.label()[8:], 'samples': n, 'failures': [],
                            'what': 'genhkl_all (by number) == brute-force set of non-extinct hkl in the shell, none missing / extra / '
                                    'repeated, for %d random conforming cell(s) per setting%s, sintlmax in [0.25,0.45]'
                                    % (ncells, ' (orthogonal metric for triclinic/monoclinic groups)' if self.orth else '')}}


def units(tier):
    mods = MODULES_QUICK if tier == 'quick' else ('tools', 'laue')
    us = [SysabsUnit(mods), SegmentsUnit(mods)]
    for m in mods:
        us.append(TraversalUnit(m, False))
        us.append(TraversalUnit(m, True))
    from .dedup import DedupKeyUnit
    for m in ('tools', 'laue'):
        us.append(DedupKeyUnit(m))
    return us


def main(tier, seed, write_baseline=False):
    return Rn.run_property('C05', units(tier), tier, seed, level='proof',
                           assumptions=['sysabs / sysabs_unique are executed (CPython) over symbolic integers after a mechanical '
                                        'if-conversion (pyvc/ifconv.py); Python % on integers is z3 mod for positive divisors; '
                                        'abs(x) % c is only compared with 0',
                                        'extinct_G(h) := exists (R,t) in the table: hR = h and h.t not an integer (translations '
                                        'snapped to n/24; C04 proves the 1e-6 bound)',
                                        'layer (iii) -- traversal order/early exit of genhkl_base and the expansion in genhkl_all '
                                        '(numpy.unique on a random projection) -- is NOT proved: bounded stand-in against an exact '
                                        'brute-force oracle; quick tier checks xfab.tools only (xfab.laue is AST-identical, see C14)',
                                        'z3 sound'],
                           trusted=['z3 5.1.0 (QF_LIA)', 'CPython', 'numpy'], write_baseline=write_baseline)
