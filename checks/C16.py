"""C16 -- atomic form factors are physical: f(0) = Z, positive and decreasing"""
import math
from fractions import Fraction

from .common import *
from pyvc.ground import GroundUnit
from pyvc.source import Source

ELEMENTS = ("H HE LI BE B C N O F NE NA MG AL SI P S CL AR K CA SC TI V CR MN FE CO NI CU ZN GA GE AS SE BR KR "
            "RB SR Y ZR NB MO TC RU RH PD AG CD IN SN SB TE I XE CS BA LA CE PR ND PM SM EU GD TB DY HO ER TM YB "
            "LU HF TA W RE OS IR PT AU HG TL PB BI PO AT RN FR RA AC TH PA U NP PU").split()
Z = {s: i + 1 for i, s in enumerate(ELEMENTS)}


def table_from_source():
    """the literal table of the current atomlib.py, as exact rationals (decimal reading of the literals)"""
    import ast
    src = Source()
    tree = src.module('atomlib')
    for node in tree.body:
        if isinstance(node, ast.Assign) and getattr(node.targets[0], 'id', None) == 'formfactor':
            seg = node.value
            out = {}
            for k, v in zip(seg.keys, seg.values):
                coeffs = []
                for e in v.elts:
                    txt = ast.get_source_segment(src.text('atomlib'), e)
                    coeffs.append(Fraction(txt.strip()))
                out[k.value] = coeffs
            return out
    raise KeyError('formfactor table not found')


def table_obligations(tier, seed):
    import importlib
    import mpmath
    from mpmath import iv
    S = importlib.import_module('xfab.structure')
    tab = table_from_source()
    yield 'atomlib.formfactor.number_of_entries', len(tab) == 94 and set(tab) == set(ELEMENTS), \
        '%d entries; unexpected: %r' % (len(tab), sorted(set(tab) ^ set(ELEMENTS))[:5])
    iv.dps = 30
    nsub = 400 if tier == 'quick' else 4000
    for el in ELEMENTS:
        if el not in tab:
            continue
        d = tab[el]
        tag = 'atomlib.formfactor[%s]' % el
        yield tag + '.nine_coefficients', len(d) == 9, '%d coefficients' % len(d)
        if len(d) != 9:
            continue
        a, b, c = d[:4], d[4:8], d[8]
        f0 = sum(a) + c
        # FormFactor is under contract (sum a_i exp(-b_i s^2) + c): f(0) = sum a_i + c exactly
        yield (tag + '.f0_is_atomic_number', abs(f0 - Z[el]) <= Fraction(1, 10),
               'f(0) = %s, Z = %d' % (float(f0), Z[el]), {'element': el, 'f0': float(f0), 'Z': Z[el], 'c': float(c)})
        # the real function agrees with the exact value at s = 0 (native)
        nat = float(S.FormFactor(el, 0.0))
        yield tag + '.native_FormFactor_at_0', abs(nat - float(f0)) <= 1e-9, 'native %r vs exact %r' % (nat, float(f0))
        # monotone decreasing on (0, 2]: f'(s) = -2 s g(s), g = sum a_i b_i exp(-b_i s^2) > 0
        ab = [x * y for x, y in zip(a, b)]
        if all(x > 0 for x in ab):
            yield tag + '.decreasing_on_0_2', True, ''
        else:
            ok = True
            where = None
            for kk in range(nsub):
                s = iv.mpf([2.0 * kk / nsub, 2.0 * (kk + 1) / nsub])
                g = sum(iv.mpf(str(float(x))) * iv.exp(-iv.mpf(str(float(y))) * s * s) for x, y in zip(ab, b))
                if not (g.a > 0):
                    ok = False
                    where = (2.0 * kk / nsub, 2.0 * (kk + 1) / nsub)
                    break
            yield tag + '.decreasing_on_0_2', ok, 'sum a_i b_i exp(-b_i s^2) not provably > 0 on %r' % (where,)
        # positive at s = 2 (rigorous interval evaluation); with monotonicity: positive on [0, 2]
        s2 = iv.mpf(4)
        f2 = sum(iv.mpf(str(float(x))) * iv.exp(-iv.mpf(str(float(y))) * s2) for x, y in zip(a, b)) + iv.mpf(str(float(c)))
        yield tag + '.positive_at_2', f2.a > 0, 'f(2) in [%s, %s]' % (f2.a, f2.b), {'element': el, 'f(2)': float(f2.a)}


def bounded_formfactor_native():
    """the real FormFactor on the argument kinds a caller uses for 'a fine grid in [0, 2]': Python floats and ints, numpy
    scalars, arrays (float64 / float32 / int); results of earlier calls are kept and re-examined after later calls"""
    import numpy as np
    from xfab import structure, atomlib
    els = sorted(atomlib.formfactor)
    kept = []

    def spec(el, s):
        d = atomlib.formfactor[el]
        s = np.asarray(s, dtype=np.float64)
        return sum(d[i] * np.exp(-d[i + 4] * s * s) for i in range(4)) + d[8]

    def f(rng):
        el = rng.choice(els)
        kind = rng.choice(['float', 'int', 'npint', 'np32', 'array', 'array', 'intarray', 'array2d'])
        if kind == 'float':
            s = rng.choice([0.0, rng.uniform(0, 2)])
        elif kind == 'int':
            s = rng.choice([0, 1, 2])
        elif kind == 'npint':
            s = np.int64(rng.choice([0, 1, 2]))
        elif kind == 'np32':
            s = np.float32(rng.choice([0.0, 0.25, 0.5, 1.5]))
        elif kind == 'array':
            s = np.linspace(0, 2, rng.choice([5, 5, 21]))
        elif kind == 'intarray':
            s = np.arange(3)
        else:
            s = np.linspace(0, 2, 6).reshape(2, 3)
        got = structure.FormFactor(el, s)
        want = spec(el, s)
        tol = 1e-6 if kind == 'np32' else 1e-9
        if np.shape(got) != np.shape(want) or not np.allclose(np.asarray(got, float), want, rtol=tol, atol=tol):
            return {'element': el, 'stl': np.asarray(s).tolist(), 'stl_kind': kind, 'returned': np.asarray(got, float).tolist(),
                    'expected': np.asarray(want).tolist(), 'problem': 'FormFactor is not sum a_i exp(-b_i s^2) + c'}
        for (el0, s0, got0, want0) in kept:
            if not np.allclose(np.asarray(got0, float), want0, rtol=1e-9, atol=1e-9):
                del kept[:]
                return {'element': el0, 'stl': np.asarray(s0).tolist(), 'problem': 'a result returned earlier changed after a later call',
                        'later_call': [el, np.asarray(s).tolist()], 'value_now': np.asarray(got0, float).tolist(), 'expected': np.asarray(want0).tolist()}
        if isinstance(got, np.ndarray):
            kept.append((el, s, got, want))
            del kept[:-6]
    return f


def units(tier):
    return [FuncUnit('structure', 'FormFactor'),
            BoundedUnit('structure.FormFactor_argument_kinds', bounded_formfactor_native(), 1500, 30000,
                        'FormFactor(element, s) for s a float / int / numpy scalar / float64, float32, int arrays of several shapes equals the '
                        'nine-coefficient formula; array results stay valid after later calls'),
            GroundUnit('atomlib.formfactor', table_obligations, [{'module': 'atomlib', 'name': 'formfactor (94 entries)'}])]


def main(tier, seed, write_baseline=False):
    return Rn.run_property('C16', units(tier), tier, seed, level='proof',
                           assumptions=COMMON + ['exp is an uninterpreted function in the FormFactor contract (congruence only); '
                                                 'the table obligations are closed formulas over the literals of atomlib.py, '
                                                 'evaluated exactly (f(0)) or by outward-rounded interval arithmetic (mpmath iv)',
                                                 'atomic numbers Z are written in checks/C16.py (H=1 ... Pu=94)'],
                           trusted=TRUSTED + ['mpmath interval arithmetic'], write_baseline=write_baseline,
                           extra_cov={'exhaustive': True})
