"""C06 -- genhkl_unique lists one reflection per Laue family, sorted by true sintl

proved (shared with C05): the segment cones hold exactly one point of every Laue orbit and are disjoint;
sysabs == extinction by the operators inside the cones.  Bounded stand-in: the real genhkl_unique /
genhkl_all against an exact oracle (families, order, fourth column, bounds, integrality, union)."""
import itertools
import math
import multiprocessing as mp
import os
import random

import numpy as np

from .common import *
from . import C05
from pyvc import hklmodel as H, sgtables
from pyvc.runner import Unit
from pyvc.source import Source


def _job(args):
    module, ti, seed, ncells, orth = args
    import importlib
    mod = importlib.import_module('xfab.' + module)
    src = Source()
    name, setting, o = sgtables.tables(src)[ti]
    t24 = C05._t24(o)
    rot = np.array(o.rot[:o.nuniq], dtype=int)
    L = [r for r in rot] + [-r for r in rot]
    rng = random.Random(seed * 7919 + ti)
    fails = []
    n = 0
    for ci in range(ncells):
        cell = C05.conforming_cell(rng, o, orthogonal_metric=orth)
        smax = rng.uniform(0.25, 0.45)
        smin = rng.choice([0.0, rng.uniform(0.05, 0.2)])
        exp = C05.oracle_reflections(mod, cell, o, t24, smin, smax)
        edges = {k[1:] for k in exp if k and k[0] == 'edge'}
        exp = {k: v for k, v in exp.items() if not (k and k[0] == 'edge')}
        fam = {}
        for h in exp:
            orb = frozenset(tuple(int(x) for x in np.array(h).dot(R)) for R in L)
            fam.setdefault(orb, []).append(h)
        cc = 'rhombohedral' if setting == 'rhombohedral' else 'standard'
        for out_stl in (True, False):
            np.random.seed(rng.randrange(2 ** 31))
            got = mod.genhkl_unique(cell, smin, smax, sgno=o.no, cell_choice=cc, output_stl=out_stl)
            n += 1
            got = np.asarray(got, float)
            rows = [tuple(int(round(x)) for x in r[:3]) for r in got]
            nonint = bool(len(got)) and float(np.abs(got[:, :3] - np.round(got[:, :3])).max()) > 0
            stl_true = [float(mod.sintl(cell, list(r))) for r in rows]
            unsorted = any(stl_true[i] > stl_true[i + 1] + 1e-12 for i in range(len(rows) - 1))
            bad_stl = out_stl and len(rows) > 0 and (got.shape[1] != 4 or float(np.abs(got[:, 3] - np.array(stl_true)).max()) > 1e-9)
            wrong_cols = (not out_stl) and len(rows) > 0 and got.shape[1] != 3
            covered = {}
            extra = []
            for r in rows:
                if r in edges:
                    continue
                hit = [f for f in fam if r in f]
                if not hit:
                    extra.append(r)
                else:
                    covered[hit[0]] = covered.get(hit[0], 0) + 1
            dup = any(v > 1 for v in covered.values())
            missing = [sorted(f)[0] for f in fam if f not in covered and not (set(f) & edges)]
            if missing or extra or dup or unsorted or bad_stl or nonint or wrong_cols:
                fails.append({'table': name, 'setting': setting, 'sgno': o.no, 'cell': cell, 'sintlmin': smin, 'sintlmax': smax,
                              'output_stl': out_stl, 'missing': missing[:5], 'n_missing': len(missing), 'extra': extra[:5],
                              'n_extra': len(extra), 'duplicates': dup, 'unsorted': unsorted, 'bad_stl': bool(bad_stl or wrong_cols),
                              'non_integer': nonint, 'laue': o.Laue, 'orthogonal_metric': orth})
                break
        # genhkl_all is the union of the families of genhkl_unique
        np.random.seed(rng.randrange(2 ** 31))
        uni = mod.genhkl_unique(cell, smin, smax, sgno=o.no, cell_choice=cc)
        # the bounds themselves: sintlmax equal (bit for bit) to a listed reflection's sintl keeps it, sintlmin equal to one drops it
        urows = [tuple(int(round(x)) for x in r[:3]) for r in np.asarray(uni, float)]
        incomplete_class = (o.Laue in ('-1', '2/m') and not orth) or setting == 'rhombohedral'      # the open finding: traversal exits early there
        if len(urows) >= 2 and not fails and not incomplete_class:
            ustl = [float(mod.sintl(cell, list(r))) for r in urows]
            orbit = lambda r: frozenset(tuple(int(x) for x in np.array(r).dot(R)) for R in L)
            axial = [i for i, r in enumerate(urows) if sum(1 for x in r if x == 0) == 2]
            diag = [i for i, r in enumerate(urows) if abs(r[0]) == abs(r[1]) == abs(r[2])]
            cand = set([len(urows) - 1, rng.randrange(len(urows))] + axial[-2:] + diag[-1:])
            for i in sorted(cand):
                hi = ustl[i]
                j = rng.randrange(len(urows))
                lo = ustl[j] if ustl[j] < hi else smin
                got2 = mod.genhkl_unique(cell, lo, hi, sgno=o.no, cell_choice=cc)
                n += 1
                got2 = {orbit(tuple(int(round(x)) for x in r[:3])) for r in np.asarray(got2, float)}
                want2 = {orbit(r) for r, s_ in zip(urows, ustl) if lo < s_ <= hi}
                # rows whose sintl differs from a bound only by rounding between family members are left undecided
                fuzzy = {orbit(r) for r, s_ in zip(urows, ustl) if (s_ != hi and abs(s_ - hi) < 1e-12) or (s_ != lo and abs(s_ - lo) < 1e-12)}
                if (got2 - fuzzy) != (want2 - fuzzy):
                    fails.append({'table': name, 'setting': setting, 'sgno': o.no, 'cell': cell, 'sintlmin': lo, 'sintlmax': hi,
                                  'problem': 'bounds: sintlmax must be inclusive and sintlmin exclusive (bounds set equal to the sintl of listed reflections)',
                                  'bound_reflection': list(urows[i]), 'n_missing': len(want2 - got2), 'n_extra': len(got2 - want2),
                                  'missing': [sorted(f)[0] for f in list(want2 - got2)[:5]], 'duplicates': False, 'unsorted': False,
                                  'bad_stl': False, 'laue': o.Laue, 'orthogonal_metric': orth, 'boundary_case': True})
                    break
        allr = mod.genhkl_all(cell, smin, smax, sgno=o.no, cell_choice=cc, output_stl=True)
        n += 1
        want = set()
        for r in np.asarray(uni, float):
            h = np.round(r[:3]).astype(int)
            want |= {tuple(int(x) for x in h.dot(R)) for R in L}
        gotall = [tuple(int(round(x)) for x in r[:3]) for r in allr]
        sa = [float(x) for x in np.asarray(allr, float)[:, 3]] if len(allr) else []
        if set(gotall) != want or len(gotall) != len(set(gotall)) or any(sa[i] > sa[i + 1] + 1e-12 for i in range(len(sa) - 1)):
            fails.append({'table': name, 'setting': setting, 'sgno': o.no, 'cell': cell, 'sintlmin': smin, 'sintlmax': smax,
                          'problem': 'genhkl_all is not the sorted disjoint union of the families of genhkl_unique',
                          'n_missing': len(want - set(gotall)), 'n_extra': len(set(gotall) - want) + 1, 'duplicates': len(gotall) != len(set(gotall)),
                          'unsorted': True, 'bad_stl': False, 'laue': o.Laue, 'orthogonal_metric': orth})
    return ti, n, fails


class UniqueUnit(Unit):
    kind = 'bounded'

    def __init__(self, module, orth):
        self.module, self.orth = module, orth

    def label(self):
        return 'bounded.%s.genhkl_unique_vs_oracle%s' % (self.module, '.orthogonal_metric' if self.orth else '')

    def run(self, tier, seed):
        tabs = sgtables.tables(Source())
        idx = list(range(len(tabs)))
        if self.orth:
            idx = [i for i in idx if tabs[i][2].crystal_system in ('triclinic', 'monoclinic')]
        ncells = 1 if tier == 'quick' else 6
        with mp.get_context('fork').Pool(int(os.environ.get('PYVC_PROCS', '16'))) as pool:
            res = pool.map(_job, [(self.module, i, seed, ncells, self.orth) for i in idx], chunksize=2)
        fails = [f for r in res for f in r[2]]
        return {'unit': self.label(), 'functions': [], 'obligations': [], 'notes': [], 'validation': None, 'native': None,
                'bounded_multi': [{'name': 'genhkl_unique_vs_oracle[%s,%s]' % (f['table'], f['setting']), 'failure': f} for f in fails],
                'bounded': {'name': self.label()[8:], 'samples': sum(r[1] for r in res), 'failures': [],
                            'what': 'genhkl_unique: exactly one member of every Laue family of allowed reflections in the shell, nothing '
                                    'else, rows ordered by true sintl, 4th column == sintl (output_stl True/False), integer indices, '
                                    'sintlmin exclusive / sintlmax inclusive; genhkl_all == sorted disjoint union of those families; '
                                    '%d random conforming cell(s) per setting%s' % (ncells, ' with orthogonal metric' if self.orth else '')}}


def units(tier):
    mods = ('tools', 'laue')
    us = [C05.SegmentsUnit(mods if tier != 'quick' else ('tools',))]
    for m in mods:
        us.append(UniqueUnit(m, False))
        us.append(UniqueUnit(m, True))
    from .dedup import DedupKeyUnit
    for m in mods:
        us.append(DedupKeyUnit(m))      # genhkl_all == disjoint union of the families: no equivalent may collapse into another
    return us


def main(tier, seed, write_baseline=False):
    return Rn.run_property('C06', units(tier), tier, seed, level='other',
                           assumptions=['proved part (z3 LIA, all integer hkl): segment bases unimodular, every Laue orbit meets the cones, in at most '
                                        'one point, cones pairwise disjoint -- so the cone points are a system of distinct representatives',
                                        'ordering, fourth column, bounds, integrality and the union property are checked on the real functions '
                                        'against an exact oracle for random conforming cells (bounded stand-in, not a proof)'],
                           trusted=['z3 5.1.0 (QF_LIA)', 'CPython', 'numpy'], write_baseline=write_baseline,
                           extra_cov={'explanation': 'contract-level lemmas on the segment tables are discharged by z3 for all integer hkl; '
                                      'the behaviour of the traversal loop itself (order, columns, bounds) is sampled against an exact oracle '
                                      'and reported as a bounded stand-in'})
