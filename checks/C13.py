"""C13 -- strain and strained B matrix are exact inverses; UBI yields back U and strain"""
import importlib
import math

import numpy as np

from .common import *
from pyvc.engine import Cell, random_rotation

PROVED = ['epsilon_to_b', 'epsilon_to_b#zero_strain', 'b_to_epsilon', 'epsilon_to_b#of_b_to_epsilon']


def _strain(rng):
    return [rng.uniform(-0.1, 0.1) for _ in range(6)]


def bounded_old_pair(module):
    mod = importlib.import_module('xfab.' + module)
    cell = Cell()

    def f(rng):
        c = cell.sample(rng)
        e = _strain(rng)
        B = mod.epsilon_to_b_old(e, c)
        e2 = mod.b_to_epsilon_old(B, c)
        if np.abs(np.array(e2) - np.array(e)).max() > 1e-7:
            return {'cell': c, 'epsilon': e, 'b_to_epsilon_old(epsilon_to_b_old(eps))': list(map(float, e2))}
        B2 = mod.epsilon_to_b_old(e2, c)
        if np.abs(B2 - B).max() > 1e-7 * (1 + np.abs(B).max()):
            return {'cell': c, 'epsilon': e, 'problem': 'epsilon_to_b_old(b_to_epsilon_old(B)) != B'}
    return f


def bounded_ubi_eps(module):
    """ubi_to_u_and_eps on the UBI the module's own u_to_ubi convention gives for (U, strained B): K (U B)^-1"""
    mod = importlib.import_module('xfab.' + module)
    cell = Cell()
    K = 2 * math.pi if module == 'tools' else 1.0

    def f(rng):
        c = cell.sample(rng)
        e = _strain(rng)
        U = np.array(random_rotation(rng))
        B = mod.epsilon_to_b(e, c)
        ubi = K * np.linalg.inv(U.dot(B))
        U2, e2 = mod.ubi_to_u_and_eps(ubi, c)
        if np.abs(U2 - U).max() > 1e-7 or np.abs(np.array(e2) - np.array(e)).max() > 1e-7:
            return {'module': module, 'cell': c, 'epsilon': e, 'U': U.tolist(), 'epsilon_returned': list(map(float, e2)),
                    'U_error': float(np.abs(U2 - U).max()), 'eps_error': float(np.abs(np.array(e2) - np.array(e)).max())}
    return f


def units(tier):
    us = []
    for m in ('tools', 'laue'):
        for f in PROVED:
            us.append(FuncUnit(m, f))
        us.append(BoundedUnit(m + '.old_strain_pair_mutual_inverses', bounded_old_pair(m), 300, 10000,
                              'epsilon_to_b_old / b_to_epsilon_old are mutual inverses within 1e-7 (random valid cells, |eps| <= 0.1)'))
        us.append(BoundedUnit(m + '.ubi_to_u_and_eps_returns_U_and_strain', bounded_ubi_eps(m), 300, 10000,
                              'ubi_to_u_and_eps(K (U B)^-1, cell) with B = epsilon_to_b(eps, cell) returns (U, eps) within 1e-7'))
    return us


def main(tier, seed, write_baseline=False):
    return Rn.run_property('C13', units(tier), tier, seed, level='proof',
                           assumptions=COMMON + ['the _old pair and ubi_to_u_and_eps need "every upper-triangular matrix with positive diagonal is the B matrix '
                                                 'of its own cell" (uniqueness of the triangular factor), which is not machine-checked: bounded stand-ins'],
                           trusted=TRUSTED, write_baseline=write_baseline)
