"""C15 -- site multiplicity equals the number of symmetry-equivalent positions in the cell

Decided by exact enumeration, not by deduction: the real multiplicity() is run (floats) on grid
positions and compared with an exact integer oracle (orbit size modulo Z^3 in units of 1/24).
quick: a stratified sample of the grid per setting; thorough: the whole 12^3 grid for all 237
settings.  Reported as a bounded stand-in (level `exploration`), never as proved."""
import itertools
import multiprocessing as mp
import os
import random
from fractions import Fraction

import numpy as np

from .common import *
from pyvc import sgtables
from pyvc.runner import Unit

GRID24 = [0, 3, 4, 6, 8, 9, 12, 15, 16, 18, 20, 21]      # {0,1/8,1/6,1/4,1/3,3/8,1/2,5/8,2/3,3/4,5/6,7/8} * 24


def oracle(rot, t24, p):
    """exact orbit size: positions as rationals num/den with den | 24*K; images R p + t mod 1"""
    den = p[1]
    num = np.array(p[0], dtype=object)
    imgs = set()
    for R, t in zip(rot, t24):
        v = tuple(int((sum(int(R[a][b]) * num[b] for b in range(3)) * 24 + int(t[a]) * den) % (24 * den)) for a in range(3))
        imgs.add(v)
    return len(imgs)


def stabiliser(rot, t24, p):
    den = p[1]
    num = np.array(p[0], dtype=object)
    n = 0
    for R, t in zip(rot, t24):
        v = [int((sum(int(R[a][b]) * num[b] for b in range(3)) * 24 + int(t[a]) * den - num[a] * 24) % (24 * den)) for a in range(3)]
        if v == [0, 0, 0]:
            n += 1
    return n


_TABLES = None


def _tables():
    global _TABLES
    if _TABLES is None:
        out = []
        for name, setting, o in sgtables.tables():
            t24 = [[sgtables.snap24(x)[0] for x in t] for t in o.trans]
            out.append((name, setting, o, t24))
        _TABLES = out
    return _TABLES


def _job(args):
    ti, positions, seed = args
    import xfab.structure as S
    name, setting, o, t24 = _tables()[ti]
    fails = []
    n = 0
    cc = 'rhombohedral' if setting == 'rhombohedral' else 'standard'
    # history: the other settings of the same group number are asked first, as a program handling both would do
    # (the result for this setting must not depend on it)
    for (name2, setting2, o2, _t) in _tables():
        if o2.no == o.no and setting2 != setting:
            try:
                S.multiplicity([0.1, 0.2, 0.3], sgname=o2.name)
                S.multiplicity([0.1, 0.2, 0.3], sgno=o2.no, cell_choice='rhombohedral' if setting2 == 'rhombohedral' else 'standard')
            except Exception:
                pass
    for (num, den, shift, how) in positions:
        pos = [num[k] / den + shift[k] for k in range(3)]
        exp = oracle(o.rot, t24, (num, den))
        # orbit-stabiliser: nsymop / |site-symmetry group| must be the same number (fails if the table is not a group)
        stab = stabiliser(o.rot, t24, (num, den))
        if o.nsymop % stab != 0 or o.nsymop // stab != exp:
            fails.append({'table': name, 'setting': setting, 'sgno': o.no, 'position_exact': '%s/%d' % (list(num), den),
                          'family': how, 'orbit_size': exp, 'nsymop': o.nsymop, 'site_symmetry_order': stab,
                          'problem': 'orbit size != nsymop / order of the site-symmetry group (the table is not a group)'})
            break
        kinds = ['number', 'name']
        if all(float(x).is_integer() for x in pos):
            # argument kinds: a position with integral coordinates may arrive integer-typed (list of ints / int array)
            kinds += ['number,int list', 'name,int array']
        for by in kinds:
            if by == 'number':
                got = S.multiplicity(pos, sgno=o.no, cell_choice=cc)
            elif by == 'name':
                got = S.multiplicity(np.array(pos), sgname=o.name)
            elif by == 'number,int list':
                got = S.multiplicity([int(x) for x in pos], sgno=o.no, cell_choice=cc)
            else:
                got = S.multiplicity(np.array([int(x) for x in pos], dtype=int), sgname=o.name)
            n += 1
            if got != exp:
                fails.append({'table': name, 'setting': setting, 'sgno': o.no, 'sgname': o.name, 'by': by,
                              'position': pos, 'position_exact': '%s/%d' % (list(num), den),
                              'family': how, 'multiplicity': int(got), 'orbit_size': exp})
                break
    return ti, n, fails


def positions_for(rng, tier):
    """grid points and the x,x,z / x,2x,z / x,-x,z families with generic x; some shifted by lattice vectors"""
    out = []
    K = 1009                      # generic x = 137/1009, z = 311/1009 (exact rationals, no accidental coincidence)
    gx, gz = 137, 311
    fam = [((gx, gx, gz), K, 'x,x,z'), ((gx, 2 * gx, gz), K, 'x,2x,z'), ((gx, -gx % K, gz), K, 'x,-x,z'),
           ((gx, 277, gz), K, 'general x,y,z')]
    grid = list(itertools.product(GRID24, repeat=3))
    if tier == 'quick':
        pts = [(0, 0, 0), (12, 12, 12), (8, 16, 20), (8, 4, 18), (6, 6, 6), (0, 12, 6), (3, 3, 3), (8, 16, 0)]
        pts += rng.sample(grid, 72)
    else:
        pts = grid
    for p in pts:
        out.append((p, 24, (0, 0, 0), 'grid'))
    for num, den, how in fam:
        out.append((num, den, (0, 0, 0), how))
    # lattice shifts
    for p in pts[:4]:
        out.append((p, 24, (rng.randint(-2, 2), rng.randint(-2, 2), rng.randint(-2, 2)), 'grid+lattice vector'))
    return out


class MultiplicityUnit(Unit):
    kind = 'bounded'

    def label(self):
        return 'bounded.structure.multiplicity_vs_exact_orbit'

    def run(self, tier, seed):
        rng = random.Random(seed)
        tabs = _tables()
        jobs = [(i, positions_for(rng, tier), seed) for i in range(len(tabs))]
        procs = int(os.environ.get('PYVC_PROCS', '16'))
        with mp.get_context('fork').Pool(procs) as pool:
            res = pool.map(_job, jobs, chunksize=1)
        n = sum(r[1] for r in res)
        fails = [f for r in res for f in r[2]]
        self.samples = n
        return {'unit': self.label(), 'functions': [{'module': 'structure', 'name': 'multiplicity'}], 'obligations': [],
                'notes': [], 'validation': None, 'native': None,
                'bounded': {'name': 'structure.multiplicity_vs_exact_orbit',
                            'what': 'multiplicity(pos, group) == exact orbit size modulo Z^3, by number and by name, for %s'
                                    % ('the whole 12^3 grid' if tier != 'quick' else 'a stratified sample of the grid (8 fixed + 72 random points per setting)')
                                    + ' plus the x,x,z / x,2x,z / x,-x,z / general families with generic x and lattice-shifted copies, all 237 settings',
                            'samples': n, 'failures': fails[:3], 'n_failures': len(fails),
                            'failing_tables': sorted({f['table'] + '[' + f['setting'] + ']' for f in fails})}}


def units(tier):
    return [MultiplicityUnit()]


def main(tier, seed, write_baseline=False):
    return Rn.run_property('C15', units(tier), tier, seed, level='exploration',
                           assumptions=['the oracle is exact integer arithmetic on positions num/den and translations snapped to n/24 '
                                        '(column action R.x + t as used by StructureFactor)',
                                        'bounded stand-in: enumeration, not deduction (the nested for/break/append loop over a symbolic '
                                        'number of operations has no loop invariant in the sidecar yet)'],
                           trusted=['CPython', 'numpy'], write_baseline=write_baseline)
