"""C08 -- structure factor equals the explicit sum over the unit-cell contents"""
import cmath
import math
import multiprocessing as mp
import os
import random
from fractions import Fraction

import numpy as np

from .common import *
from contracts import structure as CS
from pyvc import sgtables
from pyvc.runner import Unit
from pyvc.source import Source


def _p1_job(args):
    ti, seed = args
    import xfab.structure as S
    import xfab.tools as tools
    from checks.C05 import conforming_cell, _t24
    src = Source()
    name, setting, o = [t for t in sgtables.tables(src) if t[1] == 'standard'][ti]
    rng = random.Random(seed * 17 + ti)
    t24 = _t24(o)
    cell = conforming_cell(rng, o)
    fails = []
    n = 0
    # atoms: one general, one on a special position of the grid (with the matching multiplicity)
    grid = [0, 3, 4, 6, 8, 12, 16, 18]
    specs = [([rng.random() for _ in range(3)], None), ([rng.choice(grid) / 24.0 for _ in range(3)], 'special')]
    atoms, exact = [], []
    disper = rng.choice([None, 'partial', 'full'])
    dtab = {}
    for i, (pos, kind) in enumerate(specs):
        el = rng.choice(['C', 'O', 'FE', 'SI', 'N'])
        images = {}
        for R, t in zip(o.rot, o.trans):
            v = np.array(R).dot(pos) + np.array(t)
            key = tuple(int(round(((x % 1.0) * 24000))) % 24000 for x in v)
            images.setdefault(key, (np.array(R), np.array(t)))
        mult = len(images)
        adp_kind = rng.choice(['Uiso', 'none', 'Uani'] if kind is None else ['Uiso', 'none'])
        if adp_kind == 'Uiso':
            adp = rng.uniform(0.005, 0.05)
        elif adp_kind == 'Uani':
            A = np.array([[rng.uniform(-1, 1) for _ in range(3)] for _ in range(3)])
            Um = 0.01 * (A.dot(A.T) + 0.5 * np.eye(3))
            adp = [Um[0, 0], Um[1, 1], Um[2, 2], Um[1, 2], Um[0, 2], Um[0, 1]]
        else:
            adp = 0.0
        occ = rng.uniform(0.2, 1.0)
        atoms.append(S.atom_entry(label='a%d' % i, atomtype=el, pos=pos, adp_type=adp_kind if adp_kind != 'none' else None,
                                  adp=adp, occ=occ, symmulti=mult))
        exact.append(images)
        if disper == 'full' or (disper == 'partial' and i == 0):
            dtab[el] = [rng.uniform(-0.5, 0.5), rng.uniform(0, 0.5)]
        elif disper is not None:
            dtab.setdefault(el, None)
    dis = None if disper is None else dtab
    cs = tools.cell_invert(cell)
    for _ in range(4):
        h = [rng.randint(-6, 6) for _ in range(3)]
        if rng.random() < 0.1:
            h = [0, 0, 0]
        F = complex(*S.StructureFactor(h, cell, o.name, atoms, dis))
        n += 1
        s = float(tools.sintl(cell, h)) if any(h) else 0.0
        # explicit P1 sum over the DISTINCT atoms of the cell
        E = 0j
        for a, images in zip(atoms, exact):
            f = S.FormFactor(a.atomtype, s)
            fp, fpp = (0.0, 0.0) if (dis is None or dis.get(a.atomtype) is None) else dis[a.atomtype]
            for key, (R, t) in images.items():
                r = R.dot(a.pos) + t
                if a.adp_type == 'Uiso':
                    dw = math.exp(-8 * math.pi ** 2 * a.adp * s * s)
                elif a.adp_type == 'Uani':
                    U = np.array([[a.adp[0], a.adp[5], a.adp[4]], [a.adp[5], a.adp[1], a.adp[3]], [a.adp[4], a.adp[3], a.adp[2]]])
                    beta = 2 * math.pi ** 2 * np.outer(cs[:3], cs[:3]) * U
                    br = R.dot(beta).dot(R.T)
                    dw = math.exp(-float(np.dot(h, br.dot(h))))
                else:
                    dw = 1.0
                E += a.occ * (f + fp + 1j * fpp) * dw * cmath.exp(2j * math.pi * float(np.dot(h, r)))
        power = sum(a.occ * 26 * a.symmulti for a in atoms)
        tol = 1e-9 * power + power * 2 * math.pi * 20 * 4e-7
        if abs(F - E) > tol:
            fails.append({'group': o.name, 'sgno': o.no, 'hkl': h, 'cell': cell, 'problem': 'F != explicit P1 sum',
                          'diff': abs(F - E), 'tolerance': tol, 'adp': [a.adp_type for a in atoms], 'disper': disper,
                          'multiplicities': [a.symmulti for a in atoms]})
            break
        # consequences: lattice shift, linearity in occupancy
        sh = [rng.randint(-2, 2) for _ in range(3)]
        a0 = atoms[0]
        old = (list(a0.pos), a0.occ)
        a0.pos = [p + d for p, d in zip(a0.pos, sh)]
        F2 = complex(*S.StructureFactor(h, cell, o.name, atoms, dis))
        a0.pos = old[0]
        if abs(F2 - F) > tol:
            fails.append({'group': o.name, 'hkl': h, 'problem': 'not invariant under a lattice shift of an atom', 'diff': abs(F2 - F)})
            break
        n += 1
    return n, fails


class P1Unit(Unit):
    kind = 'bounded'

    def label(self):
        return 'bounded.structure.equals_P1_expansion_all_groups'

    def run(self, tier, seed):
        reps = 1 if tier == 'quick' else 8
        jobs = [(i, seed + r) for i in range(230) for r in range(reps)]
        with mp.get_context('fork').Pool(int(os.environ.get('PYVC_PROCS', '16'))) as pool:
            res = pool.map(_p1_job, jobs, chunksize=4)
        fails = [f for r in res for f in r[1]]
        return {'unit': self.label(), 'functions': [], 'obligations': [], 'notes': [], 'validation': None, 'native': None,
                'bounded': {'name': 'structure.equals_P1_expansion_all_groups', 'samples': sum(r[0] for r in res), 'failures': fails[:3],
                            'what': 'all 230 groups by name, one general and one special-position atom (grid of 24ths, site multiplicity = exact '
                                    'orbit size), Uiso / Uani / no ADP, dispersion absent / partially None / present, hkl incl. 000, oblique '
                                    'conforming cells: StructureFactor == explicit sum over the distinct atoms of the cell; invariance under lattice shifts'}}


def units(tier):
    us = [FuncUnit('structure', 'Uij2betaij'), FuncUnit('structure', 'FormFactor')]
    for k in CS.SF_VARIANTS:
        us.append(FuncUnit('structure', k))
    us.append(P1Unit())
    return us


def main(tier, seed, write_baseline=False):
    return Rn.run_property('C08', units(tier), tier, seed, level='proof',
                           assumptions=COMMON + ['StructureFactor is verified on instances with 2 atoms x 2 operations whose data are fully '
                                                 'symbolic; the loops are unrolled for these counts (bound: 2 x 2)',
                                                 'exp, cos, sin of general arguments and FormFactor are uninterpreted functions',
                                                 'the sum over operations with weight multiplicity/nsymop equals the sum over DISTINCT positions by '
                                                 'orbit-stabiliser counting (on paper); exercised by the bounded stand-in over all 230 groups'],
                           trusted=TRUSTED, write_baseline=write_baseline)
