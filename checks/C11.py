"""C11 -- detector orientation flips are exact bijections, same for pixels and images"""
import itertools
import math

import z3

from .common import *
from pyvc import terms as T
from pyvc import npmodel as NPM
from pyvc import engine as E
from pyvc.runner import Unit
from pyvc.source import Source
from pyvc.terms import Obligation, B, Ctx, set_ctx

VALID = [(1, 0, 0, 1), (-1, 0, 0, 1), (1, 0, 0, -1), (-1, 0, 0, -1),
         (0, 1, 1, 0), (0, -1, -1, 0), (0, -1, 1, 0), (0, 1, -1, 0)]
ALL = list(itertools.product((-1, 0, 1), repeat=4))


def is_valid(o):
    """an orientation matrix is valid iff it is a signed permutation matrix"""
    o11, o12, o21, o22 = o
    return (abs(o11) == 1 and abs(o22) == 1 and o12 == 0 and o21 == 0) or \
           (abs(o12) == 1 and abs(o21) == 1 and o11 == 0 and o22 == 0)


def native_roundtrip(nm, o):
    """replay a counter-model of the coordinate round trip on the real functions"""
    def replay(model):
        import numpy as np
        from xfab import detector as D
        c = np.array([float(model.get('c0', 0)), float(model.get('c1', 0))])
        ys, zs = int(model.get('dety_size', 1)), int(model.get('detz_size', 1))
        f1, f2 = (D.xy_to_detyz, D.detyz_to_xy) if nm.startswith('detyz_to_xy_inverts') else (D.detyz_to_xy, D.xy_to_detyz)
        mid = f1(c, o[0], o[1], o[2], o[3], ys, zs)
        back = f2(mid, o[0], o[1], o[2], o[3], ys, zs)
        if float(np.abs(np.array(back, float) - c).max()) > 1e-9:
            return {'clause': nm, 'inputs': {'coor': c.tolist(), 'orientation': list(o), 'dety_size': ys, 'detz_size': zs},
                    'detail': 'round trip returns %r' % (np.array(back, float).tolist(),)}
        return None
    return replay


class FlipsUnit(Unit):
    kind = 'function'

    def __init__(self, tier):
        self.tier = tier

    def label(self):
        return 'detector.flips'

    def run(self, tier, seed):
        src = Source()
        eng = E.Engine(src)
        ns = eng.namespace('detector')
        out = {'unit': self.label(), 'obligations': [], 'notes': [], 'validation': None, 'native': None,
               'functions': [{'module': 'detector', 'name': f, 'sha': src.sha('detector', f)}
                             for f in ('trans_orientation', 'image_flipping', 'xy_to_detyz', 'detyz_to_xy')],
               'pending': []}
        pend = out['pending']

        def ob(c, name, cond, native=None):
            n0 = len(c.obligations)
            set_ctx(c)
            try:
                c.oblige(name, cond)
            finally:
                set_ctx(None)
            for o in c.obligations[n0:]:
                o.native_replay = native
                pend.append((o, None))

        def ground(name, ok, detail=''):
            out['obligations'].append({'name': name, 'kind': 'ground', 'backend': 'ground-eval', 'seconds': 0.0,
                                       'status': 'discharged' if ok else 'refuted', 'detail': '' if ok else detail,
                                       'path': '', 'model': None, 'ground_witness': None if ok else detail})
        assert sorted(o for o in ALL if is_valid(o)) == sorted(VALID)

        def image_args(flipdir, o):
            def mk(c):
                H, W = T.integer('H'), T.integer('W')
                c.assume(T.And(H >= 1, W >= 1))
                img = NPM.SImage((H, W), lambda i, j: (i, j))
                return [img, o[0], o[1], o[2], o[3], flipdir]
            return mk

        # 1. rejection of every matrix that is not a signed permutation, acceptance of the eight valid ones
        for fname in ('trans_orientation', 'image_flipping'):
            for o in ALL:
                for flipdir in ('forward', 'inverse'):
                    paths = E.run_paths(src, 'detector', fname, image_args(flipdir, o), ns)
                    tag = 'detector.%s[o=%s,%s]' % (fname, ','.join(map(str, o)), flipdir)
                    raised = all(p[2][0] == 'raise' and isinstance(p[2][1], ValueError) for p in paths)
                    returned = all(p[2][0] == 'return' for p in paths)
                    if is_valid(o):
                        ground(tag + '.accepts_valid_orientation', returned and len(paths) >= 1,
                               'valid orientation %r rejected: %r' % (o, [p[2] for p in paths]))
                    else:
                        ground(tag + '.raises_ValueError_on_invalid_orientation', raised and len(paths) >= 1,
                               'invalid orientation %r accepted' % (o,))

        def coord_args(o, real=True):
            def mk(c):
                mkv = T.real if real else T.integer
                x, y = mkv('c0'), mkv('c1')
                ys, zs = T.integer('dety_size'), T.integer('detz_size')
                c.assume(T.And(ys >= 1, zs >= 1))
                return [NPM.array([x, y]), o[0], o[1], o[2], o[3], ys, zs]
            return mk
        for fname in ('xy_to_detyz', 'detyz_to_xy'):
            for o in ALL:
                paths = E.run_paths(src, 'detector', fname, coord_args(o), ns)
                tag = 'detector.%s[o=%s]' % (fname, ','.join(map(str, o)))
                raised = all(p[2][0] == 'raise' and isinstance(p[2][1], ValueError) for p in paths)
                returned = all(p[2][0] == 'return' for p in paths)
                if is_valid(o):
                    ground(tag + '.accepts_valid_orientation', returned and len(paths) >= 1, 'valid orientation rejected')
                else:
                    ground(tag + '.raises_ValueError_on_invalid_orientation', raised and len(paths) >= 1,
                           'invalid orientation %r accepted' % (o,))

        # 2. inverse mode undoes forward mode exactly, for every shape
        for fname in ('trans_orientation', 'image_flipping'):
            fn = eng.compile('detector', fname, ns)
            for o in VALID:
                for first, second in (('forward', 'inverse'), ('inverse', 'forward')):
                    c = Ctx()
                    set_ctx(c)
                    try:
                        H, W = T.integer('H'), T.integer('W')
                        i, j = T.integer('i'), T.integer('j')
                        c.assume(T.And(H >= 1, W >= 1))
                        img = NPM.SImage((H, W), lambda a, b: (a, b))
                        mid = fn(img, o[0], o[1], o[2], o[3], first)
                        back = fn(mid, o[0], o[1], o[2], o[3], second)
                    finally:
                        set_ctx(None)
                    tag = 'detector.%s[o=%s].%s_undoes_%s' % (fname, ','.join(map(str, o)), second, first)
                    ob(c, tag + '.shape', T.And(back.shape[0] == H, back.shape[1] == W))
                    set_ctx(c)
                    c.assume(T.And(i >= 0, i < H, j >= 0, j < W))
                    si, sj = back.src(i, j)
                    set_ctx(None)
                    ob(c, tag + '.every_pixel', T.And(si == i, sj == j))

        # 3. xy_to_detyz and detyz_to_xy are mutual inverses (real coordinates, all sizes)
        f_xy = eng.compile('detector', 'xy_to_detyz', ns)
        f_dz = eng.compile('detector', 'detyz_to_xy', ns)
        for o in VALID:
            for nm, f1, f2 in (('detyz_to_xy_inverts_xy_to_detyz', f_xy, f_dz), ('xy_to_detyz_inverts_detyz_to_xy', f_dz, f_xy)):
                c = Ctx()
                set_ctx(c)
                try:
                    x, y = T.real('c0'), T.real('c1')
                    ys, zs = T.integer('dety_size'), T.integer('detz_size')
                    c.assume(T.And(ys >= 1, zs >= 1))
                    mid = f1(NPM.array([x, y]), o[0], o[1], o[2], o[3], ys, zs)
                    back = f2(mid, o[0], o[1], o[2], o[3], ys, zs)
                finally:
                    set_ctx(None)
                tag = 'detector.%s[o=%s]' % (nm, ','.join(map(str, o)))
                ob(c, tag, T.And(T.lift(back[0]) == x, T.lift(back[1]) == y), native=native_roundtrip(nm, o))

        # 4. the pixel map agrees with the image transformation: trans_orientation(img)[xy_to_detyz((x,y))] is img[x,y]
        f_tr = eng.compile('detector', 'trans_orientation', ns)
        for o in VALID:
            c = Ctx()
            set_ctx(c)
            try:
                X, Y = T.integer('X'), T.integer('Y')           # raw image indexed img[x, y], shape (X, Y)
                x, y = T.integer('x'), T.integer('y')
                c.assume(T.And(X >= 1, Y >= 1, x >= 0, x < X, y >= 0, y < Y))
                img = NPM.SImage((X, Y), lambda a, b: (a, b))
                F = f_tr(img, o[0], o[1], o[2], o[3], 'forward')
                d = f_xy(NPM.array([x, y]), o[0], o[1], o[2], o[3], Y, X)      # dety_size = Y, detz_size = X
                dy, dz = d[0], d[1]
            finally:
                set_ctx(None)
            tag = 'detector.xy_to_detyz_agrees_with_trans_orientation[o=%s]' % ','.join(map(str, o))
            ob(c, tag + '.in_range', T.And(T.lift(dy) >= 0, T.lift(dy) < F.shape[0], T.lift(dz) >= 0, T.lift(dz) < F.shape[1]))
            set_ctx(c)
            di, dj = T.integer('di'), T.integer('dj')
            c.assume(T.And(T.lift(di) == T.lift(dy), T.lift(dj) == T.lift(dz)))
            si, sj = F.src(di, dj)
            set_ctx(None)
            ob(c, tag + '.same_pixel', T.And(si == x, sj == y))
        return out


# (eta, radius) <-> (dety, detz)

from pyvc.engine import Contract, register, Real, Angle, Vec
from contracts.specs import *


@register('detector')
class DetyzToEta(Contract):
    name = 'detyz_to_eta_and_radpix'
    signature = [('coor', Vec(2, Real(-3000, 3000))), ('dety_center', Real(-2000, 2000)), ('detz_center', Real(-2000, 2000))]

    def requires(self, coor, yc, zc):
        dy, dz = coor[0] - yc, coor[1] - zc
        yield 'radius_at_least_one_pixel', dy * dy + dz * dz >= 1

    def ensures(self, coor, yc, zc, res):
        eta, rad = res[0], res[1]
        dy, dz = coor[0] - yc, coor[1] - zc
        yield 'radius_nonneg', rad >= 0
        yield 'radius_squared', Eq(rad * rad, dy * dy + dz * dz)
        yield 'eta_range', conj(eta >= 0, eta <= 360)
        # eta_and_radpix_to_detyz(eta, radpix) gives the coordinates back:
        yield 'inverse_dety', Eq(-rad * sind(eta) + yc, coor[0])
        yield 'inverse_detz', Eq(rad * cosd(eta) + zc, coor[1])


@register('detector')
class EtaToDetyz(Contract):
    name = 'eta_and_radpix_to_detyz'
    signature = [('eta', Angle(0.0, 360.0, base=(T.Fraction(1, 180), 1), special=(0.0, 90.0, 180.0, 270.0, 360.0))),
                 ('radpix', Real(1, 3000)), ('dety_center', Real(-2000, 2000)), ('detz_center', Real(-2000, 2000))]

    def ensures(self, eta, rad, yc, zc, res):
        yield 'dety', Eq(res[0], -rad * sind(eta) + yc)
        yield 'detz', Eq(res[1], rad * cosd(eta) + zc)


def bounded_eta_roundtrip():
    """the two conversions in floating point, including the boundary radius == 1 pixel that the reals model cannot
    distinguish from its neighbourhood"""
    import numpy as np
    from xfab import detector as D

    def f(rng):
        eta = rng.choice([rng.uniform(0, 360), rng.uniform(0, 360), 0.0, 90.0, 180.0, 270.0, 360.0, 1e-7, 359.9999999])
        rad = rng.choice([1.0, 1.0 + 1e-9, 1.5, rng.uniform(1, 3000), rng.uniform(1, 10)])
        yc, zc = rng.choice([(0.0, 0.0), (rng.uniform(-2000, 2000), rng.uniform(-2000, 2000))])
        c = D.eta_and_radpix_to_detyz(eta, rad, yc, zc)
        eta2, rad2 = D.detyz_to_eta_and_radpix(c, yc, zc)
        de = abs(eta2 - eta) % 360.0
        de = min(de, 360.0 - de)
        tol = 1e-6 + 1e-9 * (abs(yc) + abs(zc) + rad) / rad * 57.3
        if not (de <= tol and abs(rad2 - rad) <= 1e-9 * (1 + abs(yc) + abs(zc) + rad) and 0 <= eta2 <= 360):
            return {'eta': eta, 'radius': rad, 'dety_center': yc, 'detz_center': zc, 'eta_returned': float(eta2), 'radius_returned': float(rad2),
                    'problem': 'detyz_to_eta_and_radpix(eta_and_radpix_to_detyz(eta, radius)) != (eta, radius)'}
        c2 = D.eta_and_radpix_to_detyz(eta2, rad2, yc, zc)
        # arccos near 0/180 degrees resolves eta to about sqrt(2 ulp) = 1.5e-8 rad only: allow that much on the arc
        if np.abs(np.array(c2) - np.array(c)).max() > 3e-8 * rad + 1e-9 * (1 + abs(yc) + abs(zc)):
            return {'eta': eta, 'radius': rad, 'dety_center': yc, 'detz_center': zc, 'problem': 'coordinates are not rebuilt'}
    return f


def units(tier):
    return [FlipsUnit(tier), FuncUnit('detector', 'detyz_to_eta_and_radpix'), FuncUnit('detector', 'eta_and_radpix_to_detyz'),
            BoundedUnit('detector.eta_radius_roundtrip_in_floats', bounded_eta_roundtrip(), 2000, 100000,
                        '(eta, radius) -> (dety, detz) -> (eta, radius) in double precision, radius in {1, 1+1e-9, 1.5, random up to 3000}, '
                        'eta incl. 0/90/180/270/360, any beam centre')]


def main(tier, seed, write_baseline=False):
    return Rn.run_property('C11', units(tier), tier, seed, level='proof',
                           assumptions=COMMON + ['images are index functions of symbolic shape (H, W): transpose/fliplr/flipud '
                                                 'are modelled as the affine index maps they are in numpy',
                                                 'all 81 orientation matrices over {-1,0,1}^4 are enumerated (exhaustive); shapes, '
                                                 'pixels and real coordinates are universally quantified (linear arithmetic)'],
                           trusted=TRUSTED, write_baseline=write_baseline)
