"""C18 -- reduce_cell returns a primitive cell of the same lattice (bounded stand-in + known finding)"""
import importlib
import itertools
import math

import numpy as np

from .common import *
from pyvc.engine import Cell


def metric(mod, cell):
    A = np.array(mod.form_a_mat(cell))
    return A.T.dot(A), A


def find_integer_basis(G, Gp, rng_=3, tol=1e-6):
    """integer N with N' G N = Gp, or None (search entries in -rng_..rng_)"""
    vecs = [np.array(v) for v in itertools.product(range(-rng_, rng_ + 1), repeat=3) if any(v)]
    cands = []
    for i in range(3):
        ci = [v for v in vecs if abs(v.dot(G).dot(v) - Gp[i, i]) <= tol * (1 + Gp[i, i])]
        if not ci:
            return None
        cands.append(ci)
    for v0 in cands[0]:
        for v1 in cands[1]:
            if abs(v0.dot(G).dot(v1) - Gp[0, 1]) > tol * (1 + abs(Gp[0, 1])):
                continue
            for v2 in cands[2]:
                if abs(v0.dot(G).dot(v2) - Gp[0, 2]) <= tol * (1 + abs(Gp[0, 2])) and \
                        abs(v1.dot(G).dot(v2) - Gp[1, 2]) <= tol * (1 + abs(Gp[1, 2])):
                    return np.array([v0, v1, v2]).T
    return None


def bounded_reduce(module):
    mod = importlib.import_module('xfab.' + module)
    cell_t = Cell()

    def f(rng):
        # a reduced-ish cell, possibly re-based by a random unimodular matrix
        while True:
            c = [rng.uniform(3, 8) for _ in range(3)] + [rng.uniform(75, 105) for _ in range(3)]
            if rng.random() < 0.3:
                c[3:] = [90.0, 90.0, 90.0]
            ca, cb, cg = [math.cos(math.radians(x)) for x in c[3:]]
            if 1 - ca * ca - cb * cb - cg * cg + 2 * ca * cb * cg > 0.3:
                break
        G0, A0 = metric(mod, c)
        if rng.random() < 0.5:
            while True:
                N = np.array([[rng.randint(-1, 1) for _ in range(3)] for _ in range(3)])
                if abs(round(np.linalg.det(N))) == 1:
                    break
            A1 = A0.dot(N)
            cell = mod.a_to_cell(A1)
        else:
            cell = c
        G, A = metric(mod, cell)
        red = [float(x) for x in mod.reduce_cell(cell)]
        if any(x != x for x in red):
            return {'cell': list(map(float, cell)), 'returned': red, 'problem': 'NaN in the reduced cell', 'row_column_signature': False}
        Gp, Ap = metric(mod, red)
        vol, volp = abs(np.linalg.det(A)), abs(np.linalg.det(Ap))
        N = find_integer_basis(G, Gp)
        ok = N is not None and abs(round(np.linalg.det(N))) == 1 and abs(vol - volp) <= 1e-6 * vol
        if not ok:
            # signature of the known defect: the returned metric is (A N)(A N)' for an integer N, i.e. the reduced basis
            # vectors were stored as rows and then read as columns
            sig = False
            for cols in itertools.permutations([np.array(v) for v in itertools.product(range(-3, 3), repeat=3) if any(v)][:0], 3):
                pass
            vecs = [np.array(v) for v in itertools.product(range(-3, 3), repeat=3) if any(v)]
            byn = sorted(vecs, key=lambda v: v.dot(G).dot(v))[:40]
            for v0, v1, v2 in itertools.permutations(byn[:14], 3):
                Nn = np.array([v0, v1, v2]).T
                M = A.dot(Nn)
                if np.abs(M.dot(M.T) - Gp).max() <= 1e-6 * (1 + np.abs(Gp).max()) and abs(round(np.linalg.det(Nn))) >= 1:
                    sig = True
                    break
            return {'cell': list(map(float, cell)), 'returned': red, 'volume': float(vol), 'volume_returned': float(volp),
                    'integer_basis_found': N is not None, 'row_column_signature': sig,
                    'problem': 'returned cell is not a basis of the same lattice'}
    return f


def units(tier):
    return [BoundedUnit('%s.reduce_cell_same_lattice' % m, bounded_reduce(m), 60, 2000,
                        'reduce_cell(cell): same volume and metric N\'GN with integer unimodular N (entries within +-3), for random cells '
                        'with reduced basis inside the default search range, half of them re-based by a random unimodular matrix')
            for m in ('tools', 'laue')]


def main(tier, seed, write_baseline=False):
    return Rn.run_property('C18', units(tier), tier, seed, level='exploration',
                           assumptions=['bounded stand-in only: that three successive minima form a basis needs lattice-reduction theory no contract here '
                                        'can discharge; the structural part (candidate list, a_to_cell of the chosen vectors) is not claimed as proved '
                                        'because the function violates it on the unchanged tree (known finding)'],
                           trusted=['CPython', 'numpy'], write_baseline=write_baseline)
