"""C18 -- reduce_cell returns a primitive cell of the same lattice (bounded stand-in + known finding)"""
import importlib
import itertools
import math

import numpy as np

from .common import *
from pyvc.engine import Cell


def metric(mod, cell):
    A = np.array(mod.form_a_mat(cell))
    return A.T.dot(A), A


def find_integer_basis(G, Gp, rng_=3, tol=1e-6):
    """integer N with N' G N = Gp, or None (search entries in -rng_..rng_)"""
    vecs = [np.array(v) for v in itertools.product(range(-rng_, rng_ + 1), repeat=3) if any(v)]
    cands = []
    for i in range(3):
        ci = [v for v in vecs if abs(v.dot(G).dot(v) - Gp[i, i]) <= tol * (1 + Gp[i, i])]
        if not ci:
            return None
        cands.append(ci)
    for v0 in cands[0]:
        for v1 in cands[1]:
            if abs(v0.dot(G).dot(v1) - Gp[0, 1]) > tol * (1 + abs(Gp[0, 1])):
                continue
            for v2 in cands[2]:
                if abs(v0.dot(G).dot(v2) - Gp[0, 2]) <= tol * (1 + abs(Gp[0, 2])) and \
                        abs(v1.dot(G).dot(v2) - Gp[1, 2]) <= tol * (1 + abs(Gp[1, 2])):
                    return np.array([v0, v1, v2]).T
    return None


_IDX = np.array([t for t in itertools.product(range(-4, 5), repeat=3) if any(t)])


def successive_minima(A):
    """greedy shortest non-collinear / non-coplanar lattice vectors (coefficients in -4..4): the lengths are unique
    whatever the tie-breaking (matroid greedy), so their squared sum is a well-defined expectation"""
    lens = np.linalg.norm(_IDX.dot(A.T), axis=1)
    chosen = []
    for o in np.argsort(lens, kind='stable'):
        cand = chosen + [_IDX[o]]
        M = np.array(cand).dot(A.T)
        sv = np.linalg.svd(M, compute_uv=False)
        if sv[-1] > 1e-6 * sv[0]:
            chosen = cand
        if len(chosen) == 3:
            break
    chosen = np.array(chosen)
    return chosen, np.linalg.norm(chosen.dot(A.T), axis=1)


def bounded_reduce(module):
    mod = importlib.import_module('xfab.' + module)
    cell_t = Cell()

    def f(rng):
        # a reduced-ish cell, possibly re-based by a random unimodular matrix
        while True:
            c = [rng.uniform(3, 8) for _ in range(3)] + [rng.uniform(75, 105) for _ in range(3)]
            if rng.random() < 0.3:
                c[3:] = [90.0, 90.0, 90.0]
            sym = rng.random()
            if sym < 0.08:            # lattices with equal shortest vectors: tetragonal, cubic, hexagonal, rhombohedral
                c = [c[0], c[0], c[2], 90.0, 90.0, 90.0]
            elif sym < 0.14:
                c = [c[0], c[0], c[0], 90.0, 90.0, 90.0]
            elif sym < 0.20:
                c = [c[0], c[0], c[2], 90.0, 90.0, 120.0]
            elif sym < 0.25:
                al = rng.uniform(62, 100)
                c = [c[0], c[0], c[0], al, al, al]
            ca, cb, cg = [math.cos(math.radians(x)) for x in c[3:]]
            if 1 - ca * ca - cb * cb - cg * cg + 2 * ca * cb * cg > 0.3:
                break
        G0, A0 = metric(mod, c)
        if rng.random() < 0.6:
            w = rng.choice([1, 1, 2])
            while True:
                N = np.array([[rng.randint(-w, w) for _ in range(3)] for _ in range(3)])
                if abs(round(np.linalg.det(N))) == 1:
                    break
            A1 = A0.dot(N)
            cell = mod.a_to_cell(A1)
        else:
            cell = c
        G, A = metric(mod, cell)
        if rng.random() < 0.15:
            # the result must not depend on earlier calls (e.g. with another search range)
            mod.reduce_cell(c, uvw=rng.choice([2, 4]))
        red = [float(x) for x in mod.reduce_cell(cell)]
        if any(x != x for x in red):
            return {'cell': list(map(float, cell)), 'returned': red, 'problem': 'NaN in the reduced cell', 'row_column_signature': False}
        Gp, Ap = metric(mod, red)
        vol, volp = abs(np.linalg.det(A)), abs(np.linalg.det(Ap))
        # 'built from the shortest non-coplanar lattice vectors within the search range': a^2+b^2+c^2 of the result is the
        # squared sum of the successive minima (this holds whether the vectors are stored as rows or as columns, so it is
        # decidable independently of the open row/column finding)
        coef, lens = successive_minima(A)
        gaps = np.diff(np.sort(np.linalg.norm(_IDX.dot(A.T), axis=1)))
        if np.abs(coef).max() > 2:
            return None          # outside the stated domain: the reduced basis is not within the default search range
        if True:
            want = float((lens ** 2).sum())
            if abs(np.trace(Gp) - want) > 1e-6 * want:
                return {'cell': list(map(float, cell)), 'returned': red, 'problem': 'a^2+b^2+c^2 of the result is not the squared sum of '
                        'the three shortest non-coplanar lattice vectors', 'trace_returned': float(np.trace(Gp)), 'trace_expected': want,
                        'minima_coefficients': coef.tolist(), 'row_column_signature': False, 'volume': float(vol), 'volume_returned': float(volp)}
        N = find_integer_basis(G, Gp)
        ok = N is not None and abs(round(np.linalg.det(N))) == 1 and abs(vol - volp) <= 1e-6 * vol
        if not ok:
            # signature of the known defect: the returned metric is (A N)(A N)' for an integer N, i.e. the reduced basis
            # vectors were stored as rows and then read as columns
            sig = False
            all_lens = np.linalg.norm(_IDX.dot(A.T), axis=1)
            cands = [[_IDX[k] for k in np.nonzero(np.abs(all_lens - L_) <= 1e-6 * L_)[0]] for L_ in lens]
            for combo in itertools.islice(itertools.product(*cands), 4000):
                V = np.array(combo).dot(A.T)              # rows: three shortest non-coplanar lattice vectors (Cartesian)
                if abs(np.linalg.det(V)) > 1e-9 and np.abs(V.T.dot(V) - Gp).max() <= 1e-6 * (1 + np.abs(Gp).max()):
                    sig = True                            # the metric of the COLUMNS of a matrix whose ROWS are those vectors
                    break
            return {'cell': list(map(float, cell)), 'returned': red, 'volume': float(vol), 'volume_returned': float(volp),
                    'integer_basis_found': N is not None, 'row_column_signature': sig,
                    'problem': 'returned cell is not a basis of the same lattice'}
    return f


_HISTORY_SCRIPT = r'''
import json, sys
import numpy as np
mod = __import__('xfab.' + sys.argv[1], fromlist=['x'])
job = json.loads(sys.stdin.read())
for first in job['first']:
    mod.reduce_cell(first[0], uvw=first[1])
print(json.dumps([[float(x) for x in mod.reduce_cell(c)] for c in job['cells']]))
'''


class HistoryUnit(Rn.Unit):
    """reduce_cell(cell) must not depend on what was called before in the same process: the same default calls are made
    in fresh interpreters after different first calls (none / uvw=2 / uvw=4) and must give identical results"""
    kind = 'bounded'

    def __init__(self, module):
        self.module = module

    def label(self):
        return 'bounded.%s.reduce_cell_history_independent' % self.module

    def run(self, tier, seed):
        import json
        import os
        import random
        import subprocess
        import sys
        mod = importlib.import_module('xfab.' + self.module)
        rng = random.Random(seed)
        cells = []
        want = 30 if tier == 'quick' else 300
        while len(cells) < want:
            c = [rng.uniform(3, 8) for _ in range(3)] + [rng.uniform(75, 105) for _ in range(3)]
            G0, A0 = metric(mod, c)
            N = np.array([[rng.randint(-2, 2) for _ in range(3)] for _ in range(3)])
            if abs(round(np.linalg.det(N))) != 1:
                continue
            cell = [float(x) for x in mod.a_to_cell(A0.dot(N))]
            coef, lens = successive_minima(metric(mod, cell)[1])
            if np.abs(coef).max() == 2 or rng.random() < 0.1:
                cells.append(cell)
        outs = {}
        for nm, first in (('none', []), ('uvw=2', [[[4.0, 5.0, 6.0, 90.0, 90.0, 90.0], 2]]), ('uvw=4', [[[4.0, 5.0, 6.0, 90.0, 90.0, 90.0], 4]])):
            r = subprocess.run([sys.executable, '-W', 'ignore', '-c', _HISTORY_SCRIPT, self.module], input=json.dumps({'first': first, 'cells': cells}),
                               capture_output=True, text=True, env=dict(os.environ), timeout=600)
            if r.returncode != 0:
                raise RuntimeError('history subprocess failed: ' + r.stderr[-400:])
            outs[nm] = json.loads(r.stdout.strip().splitlines()[-1])
        fails = []
        for i, c in enumerate(cells):
            for nm in ('uvw=2', 'uvw=4'):
                a, b = np.array(outs['none'][i]), np.array(outs[nm][i])
                if not np.allclose(a, b, rtol=1e-9, atol=1e-9, equal_nan=True):
                    fails.append({'cell': c, 'first_call_in_process': nm, 'returned': b.tolist(), 'returned_in_fresh_process': a.tolist(),
                                  'problem': 'reduce_cell(cell) depends on an earlier call', 'row_column_signature': False})
                    break
        return {'unit': self.label(), 'functions': [], 'obligations': [], 'notes': [], 'validation': None, 'native': None,
                'bounded': {'name': self.label()[8:], 'samples': 3 * len(cells), 'failures': fails[:20],
                            'what': 'reduce_cell(cell) with the default range gives the same result in a fresh interpreter whether or not a call '
                                    'with uvw=2 or uvw=4 came first (%d cells whose reduced basis needs a coefficient of 2)' % len(cells)}}


def units(tier):
    return [BoundedUnit('%s.reduce_cell_same_lattice' % m, bounded_reduce(m), 600, 4000,
                        'reduce_cell(cell): same volume and metric N\'GN with integer unimodular N (entries within +-3), and a^2+b^2+c^2 == squared sum '
                        'of the successive minima; random cells with reduced basis inside the default search range (|coefficients| <= 2), 60% re-based by a '
                        'random unimodular matrix with entries up to +-2; 15% of the calls preceded by a call with another uvw (history independence)')
            for m in ('tools', 'laue')] + [HistoryUnit(m) for m in ('tools', 'laue')]


def main(tier, seed, write_baseline=False):
    return Rn.run_property('C18', units(tier), tier, seed, level='exploration',
                           assumptions=['bounded stand-in only: that three successive minima form a basis needs lattice-reduction theory no contract here '
                                        'can discharge; the structural part (candidate list, a_to_cell of the chosen vectors) is not claimed as proved '
                                        'because the function violates it on the unchanged tree (known finding)'],
                           trusted=['CPython', 'numpy'], write_baseline=write_baseline)
