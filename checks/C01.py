"""C01 -- cell parameters, A/B matrices, volume and sin(theta)/lambda share one metric"""
import math
from .common import *
from pyvc.engine import Cell, Vec, Real
from pyvc import terms as T
from contracts.specs import *

FUNCS = ['cell_volume', 'form_a_mat', 'form_b_mat', 'form_a_mat_inv', 'sintl', 'a_to_cell', 'cell_invert']


def _req_cell(c):
    yield 'valid_cell', valid_cell(c)


def lemma_a_roundtrip(ns, c):
    """a_to_cell(form_a_mat(c)) == c, from the two contracts and injectivity of metric -> parameters"""
    A = ns.form_a_mat(c)
    c2 = ns.a_to_cell(A)
    for i in (3, 4, 5):
        axiom_cos_injective_deg(c2[i], c[i])
    for i, nm in enumerate(['a', 'b', 'c', 'alpha', 'beta', 'gamma']):
        yield 'returns_' + nm, Eq(c2[i], c[i])


def _close(c1, c2, tol=1e-7):
    return all(abs(x - y) <= tol * (1 + abs(y)) for x, y in zip(c1, c2))


def bounded_b_roundtrip(module):
    import importlib
    mod = importlib.import_module('xfab.' + module)
    cell = Cell()

    def f(rng):
        c = cell.sample(rng)
        c2 = mod.b_to_cell(mod.form_b_mat(c))
        if not _close(c2, c):
            return {'cell': c, 'b_to_cell(form_b_mat(cell))': list(c2)}
    return f


def bounded_invert_involution(module):
    import importlib
    mod = importlib.import_module('xfab.' + module)
    cell = Cell()

    def f(rng):
        c = cell.sample(rng)
        c2 = mod.cell_invert(mod.cell_invert(c))
        if not _close(c2, c):
            return {'cell': c, 'cell_invert(cell_invert(cell))': list(c2)}
    return f


def units(tier):
    us = []
    for m in ('tools', 'laue'):
        for f in FUNCS:
            us.append(FuncUnit(m, f))
        us.append(LemmaUnit('a_to_cell_inverts_form_a_mat', m, [('c', Cell())], _req_cell, lemma_a_roundtrip))
        us.append(BoundedUnit(m + '.b_to_cell_inverts_form_b_mat', bounded_b_roundtrip(m), 300, 20000,
                              'b_to_cell(form_b_mat(c)) == c within 1e-7 on random valid cells (Gram det >= 0.02)'))
        us.append(BoundedUnit(m + '.cell_invert_is_involution', bounded_invert_involution(m), 300, 20000,
                              'cell_invert(cell_invert(c)) == c within 1e-7 on random valid cells'))
    return us


def main(tier, seed, write_baseline=False):
    return Rn.run_property('C01', units(tier), tier, seed, level='proof', assumptions=COMMON, trusted=TRUSTED,
                           write_baseline=write_baseline)
