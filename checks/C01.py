"""C01 -- cell parameters, A/B matrices, volume and sin(theta)/lambda share one metric"""
import math
from .common import *
from pyvc.engine import Cell, Vec, Real
from pyvc import terms as T
from contracts.specs import *

FUNCS = ['cell_volume', 'form_a_mat', 'form_b_mat', 'form_a_mat_inv', 'sintl', 'a_to_cell', 'cell_invert']


def _req_cell(c):
    yield 'valid_cell', valid_cell(c)


def lemma_a_roundtrip(ns, c):
    """a_to_cell(form_a_mat(c)) == c, from the two contracts and injectivity of metric -> parameters"""
    A = ns.form_a_mat(c)
    c2 = ns.a_to_cell(A)
    for i in (3, 4, 5):
        axiom_cos_injective_deg(c2[i], c[i])
    for i, nm in enumerate(['a', 'b', 'c', 'alpha', 'beta', 'gamma']):
        yield 'returns_' + nm, Eq(c2[i], c[i])


def lemma_invert_involution(module):
    """cell_invert(cell_invert(c)) == c, from the contract of cell_invert applied twice.  The two results are fresh
    cells constrained only by the (proved) postcondition of cell_invert.  The algebra is done by the micro-lemmas of
    checks/algebra.py (each proved once over fresh reals, instantiated here): closed form of sqrt(D*), V*.V = 1,
    a** = a, cos(alpha**) D = cos(alpha) D, cancellation, and injectivity of cos on [0,180] for the angles."""
    from . import algebra as A

    def body(ns, c):
        from pyvc.engine import REGISTRY
        from contracts.tools_laue import fresh_cell, native_fn, num_args
        k = REGISTRY[(module, 'cell_invert')]
        cx = T.ctx()
        f = native_fn(module, 'cell_invert')
        na = num_args([c])
        a, b, cc = c[0], c[1], c[2]
        co = [cosd(c[3]), cosd(c[4]), cosd(c[5])]
        si = [sind(c[3]), sind(c[4]), sind(c[5])]
        V = Vspec(c)                      # introduces sqrt(D) before the fresh cells: they are the newer symbols
        D = gram_D(c)
        abc = a * b * cc
        yield 'volume_positive', V > 0
        yield 'volume_squared', Eq(V * V, a * b * cc * a * b * cc * D)
        for i in range(3):
            yield 'sin_squared_%d' % i, Eq(si[i] * si[i], 1 - co[i] * co[i])
        cs = fresh_cell('cs', lambda env: f(*na(env)))
        from contracts.tools_laue import cell_invert_core
        for nm, cond in cell_invert_core(k, c, cs):
            cx.assume(cond)               # postcondition of cell_invert(c): only clauses proved for the real function
        Cs = [cosd(cs[3]), cosd(cs[4]), cosd(cs[5])]
        Ss = [sind(cs[3]), sind(cs[4]), sind(cs[5])]
        # the reciprocal cell is a valid cell: cell_invert may be applied to it
        Ds = gram_D(cs)
        p3 = si[0] * si[1] * si[2]
        yield from A.use('gram_star', A.L_gram_star, Cs[0], Cs[1], Cs[2], co[0], co[1], co[2], si[0], si[1], si[2])
        yield 'reciprocal_gram_closed_form', Eq(Ds * p3 * p3, D * D)
        yield 'reciprocal_gram_positive', Ds > 0
        yield 'reciprocal_cell_is_valid', valid_cell(cs)
        Vs = Vspec(cs)
        rs = T.sqrt(Ds)
        c2 = fresh_cell('c2', lambda env: f(f(*na(env))))
        for nm, cond in cell_invert_core(k, cs, c2):
            cx.assume(cond)               # postcondition of cell_invert(cs)
        yield from A.use('sqrt_closed', A.L_sqrt_closed, rs, Ds, p3, D)
        yield from A.use('recip_volume', A.L_recip_volume, Vs, cs[0], cs[1], cs[2], rs, V, a, b, cc, si[0], si[1], si[2], D)
        # lengths: x** V* = y* z* sin(x-angle*)
        perm = [(0, 1, 2), (1, 0, 2), (2, 0, 1)]
        lens = [a, b, cc]
        for (i, j, k_), nm in zip(perm, 'abc'):
            yield from A.use('length_back_' + nm, A.L_length_back, c2[i], Vs, cs[j], cs[k_], Ss[i], V,
                             lens[i], lens[j], lens[k_], si[j], si[k_])
            yield 'returns_' + nm, Eq(c2[i], lens[i])
        for i, nm in ((0, 'alpha'), (1, 'beta'), (2, 'gamma')):
            j, k_ = (i + 1) % 3, (i + 2) % 3
            x = cosd(c2[3 + i])
            R0 = Cs[j] * Cs[k_] - Cs[i]
            ni, nj, nk = co[j] * co[k_] - co[i], co[i] * co[k_] - co[j], co[i] * co[j] - co[k_]
            N = nj * nk - ni * si[i] * si[i]
            Q = R0 * si[i] * si[i] * si[j] * si[k_]
            yield from A.use('scale_cos_' + nm, A.L_scale_cos, x, Ss[j], Ss[k_], R0, abc, si[i], si[j], si[k_], V)
            yield from A.use('recip_cos_products_' + nm, A.L_recip_cos_products, Cs[i], Cs[j], Cs[k_], si[i], si[j], si[k_], ni, nj, nk)
            yield from A.use('gram_identity_' + nm, A.L_gram_identity, co[i], co[j], co[k_], si[i], D)
            yield from A.use('cancel_cos_' + nm, A.L_cancel_cos, x, co[i], V, abc, D, Q, N)
            yield 'cos_' + nm, Eq(x, co[i])
            axiom_cos_injective_deg(c2[3 + i], c[3 + i])
            yield 'returns_' + nm, Eq(c2[3 + i], c[3 + i])
    return body


def _close(c1, c2, tol=1e-7):
    return all(abs(x - y) <= tol * (1 + abs(y)) for x, y in zip(c1, c2))


def bounded_b_roundtrip(module):
    import importlib
    mod = importlib.import_module('xfab.' + module)
    cell = Cell()

    def f(rng):
        c = cell.sample(rng)
        c2 = mod.b_to_cell(mod.form_b_mat(c))
        if not _close(c2, c):
            return {'cell': c, 'b_to_cell(form_b_mat(cell))': list(c2)}
    return f


def bounded_invert_involution(module):
    import importlib
    mod = importlib.import_module('xfab.' + module)
    cell = Cell()

    def f(rng):
        c = cell.sample(rng)
        c2 = mod.cell_invert(mod.cell_invert(c))
        if not _close(c2, c):
            return {'cell': c, 'cell_invert(cell_invert(cell))': list(c2)}
    return f


def units(tier):
    from . import algebra as A
    us = [A.unit(n_, f_, k_) for n_, f_, k_ in A.C01_LEMMAS]
    for m in ('tools', 'laue'):
        for f in FUNCS:
            us.append(FuncUnit(m, f))
        us.append(LemmaUnit('a_to_cell_inverts_form_a_mat', m, [('c', Cell())], _req_cell, lemma_a_roundtrip))
        us.append(LemmaUnit('cell_invert_is_involution', m, [('c', Cell())], _req_cell, lemma_invert_involution(m)))
        us.append(BoundedUnit(m + '.b_to_cell_inverts_form_b_mat', bounded_b_roundtrip(m), 300, 20000,
                              'b_to_cell(form_b_mat(c)) == c within 1e-7 on random valid cells (Gram det >= 0.02)'))
        us.append(BoundedUnit(m + '.cell_invert_is_involution', bounded_invert_involution(m), 300, 20000,
                              'cell_invert(cell_invert(c)) == c within 1e-7 on random valid cells'))
    return us


def main(tier, seed, write_baseline=False):
    return Rn.run_property('C01', units(tier), tier, seed, level='proof',
                           assumptions=COMMON + ['lemma cell_invert_is_involution: the two results are fresh cells constrained only by the core clauses '
                                                 'of cell_invert\'s postcondition (proved for the real function in this check); algebraic micro-lemmas '
                                                 'are proved over fresh reals and instantiated (premises re-proved at every use site)'],
                           trusted=TRUSTED,
                           write_baseline=write_baseline)
