"""pyvc.cert -- certificates for polynomial identities modulo hypotheses.

goal:  h_1 = 0, ..., h_n = 0  |-  p = 0        (all division-free z3 polynomial terms)

An UNTRUSTED hint generator (sympy) proposes cofactors c_i with p = sum c_i h_i.  The
only step that counts is z3 checking the hypothesis-free identity  p - sum c_i h_i == 0
(`check_identity`).  If sympy fails the obligation stays unknown; it can never forge a proof.
"""
import hashlib
import json
import os
import signal
import time
from fractions import Fraction

import sympy
import z3

HINT_DIR = os.path.join(os.path.dirname(os.path.dirname(os.path.abspath(__file__))), 'hints')


class Timeout(Exception):
    pass


def _alarm(signum, frame):
    raise Timeout()


class time_limit:
    def __init__(self, seconds):
        self.seconds = int(max(1, seconds))

    def __enter__(self):
        self.old = signal.signal(signal.SIGALRM, _alarm)
        signal.alarm(self.seconds)

    def __exit__(self, *a):
        signal.alarm(0)
        signal.signal(signal.SIGALRM, self.old)
        return False


# ---------------------------------------------------------------------------
# z3 -> sympy (untrusted direction: only feeds the hint generator)

def z3_to_sympy(t, cache=None):
    cache = {} if cache is None else cache

    def ev(e):
        k = e.get_id()
        if k not in cache:
            cache[k] = _ev(e)
        return cache[k]

    def _ev(e):
        if z3.is_rational_value(e):
            return sympy.Rational(e.numerator_as_long(), e.denominator_as_long())
        if z3.is_int_value(e):
            return sympy.Integer(e.as_long())
        kind = e.decl().kind()
        ch = e.children()
        if kind == z3.Z3_OP_UNINTERPRETED and not ch:
            return sympy.Symbol(e.decl().name())
        if kind == z3.Z3_OP_ADD:
            return sympy.Add(*[ev(c) for c in ch])
        if kind == z3.Z3_OP_MUL:
            return sympy.Mul(*[ev(c) for c in ch])
        if kind == z3.Z3_OP_SUB:
            r = ev(ch[0])
            for c in ch[1:]:
                r = r - ev(c)
            return r
        if kind == z3.Z3_OP_UMINUS:
            return -ev(ch[0])
        if kind == z3.Z3_OP_TO_REAL:
            return ev(ch[0])
        if kind == z3.Z3_OP_POWER and z3.is_int_value(ch[1]):
            return ev(ch[0]) ** ch[1].as_long()
        raise ValueError('not a polynomial term: %s' % e.decl().name())
    return ev(t)


def sympy_to_z3(poly, zsyms):
    """sympy Poly -> z3 term (products only, no power operator)"""
    terms = []
    gens = poly.gens
    for mon, coef in poly.terms():
        coef = sympy.Rational(coef)
        t = z3.RealVal('%d/%d' % (coef.p, coef.q)) if coef.q != 1 else z3.RealVal(int(coef.p))
        for g, e in zip(gens, mon):
            for _ in range(e):
                t = t * zsyms[g.name]
        terms.append(t)
    if not terms:
        return z3.RealVal(0)
    return z3.Sum(terms) if len(terms) > 1 else terms[0]


def symbols_of(t, acc=None):
    acc = {} if acc is None else acc
    seen = set()

    def rec(e):
        if e.get_id() in seen:
            return
        seen.add(e.get_id())
        if z3.is_const(e) and e.decl().kind() == z3.Z3_OP_UNINTERPRETED:
            acc[e.decl().name()] = e
        for c in e.children():
            rec(c)
    rec(t)
    return acc


# ---------------------------------------------------------------------------
# the trusted step

def check_identity(expr, timeout_ms=20000):
    """True iff z3 establishes expr == 0 as a polynomial identity (no hypotheses)"""
    s = z3.simplify(expr, som=True)
    if z3.is_rational_value(s) and s.numerator_as_long() == 0:
        return True
    sol = z3.Solver()
    sol.set('timeout', timeout_ms)
    sol.add(expr != 0)
    return sol.check() == z3.unsat


# ---------------------------------------------------------------------------
# hint generation

def _hint_key(p_s, hyps_s, gens):
    h = hashlib.sha256()
    h.update(sympy.srepr(p_s).encode())
    for x in hyps_s:
        h.update(b'|')
        h.update(sympy.srepr(x).encode())
    h.update(('|' + ','.join(g.name for g in gens)).encode())
    return h.hexdigest()[:24]


def _load_hint(key):
    p = os.path.join(HINT_DIR, key[:2], key + '.json')
    if os.path.exists(p):
        try:
            with open(p) as f:
                return json.load(f)
        except Exception:
            return None
    return None


def _save_hint(key, data):
    if os.environ.get('PYVC_SAVE_HINTS', '1') != '1':
        return
    d = os.path.join(HINT_DIR, key[:2])
    os.makedirs(d, exist_ok=True)
    tmp = os.path.join(d, '%s.%d.tmp' % (key, os.getpid()))
    with open(tmp, 'w') as f:
        json.dump(data, f)
    os.replace(tmp, os.path.join(d, key + '.json'))


def relevant_hyps(p_syms, hyps_syms):
    """indices of hypotheses connected to the goal's symbols (transitively)"""
    cur = set(p_syms)
    used = set()
    changed = True
    while changed:
        changed = False
        for i, hs in enumerate(hyps_syms):
            if i in used:
                continue
            if hs & cur:
                used.add(i)
                if not hs <= cur:
                    cur |= hs
                changed = True
    return sorted(used)


def prove_eq(p, hyps, order, timeout=30, use_cache=True, want_groebner=True):
    """Try to prove p == 0 from hyps (lists of z3 terms). order: symbol names, creation order.
    returns dict(status='discharged'|'unknown'|'not-in-ideal', backend=..., detail=..., seconds=...)"""
    t0 = time.time()
    out = {'status': 'unknown', 'backend': 'certificate+z3', 'detail': ''}
    # 0. plain identity
    if check_identity(p, 5000):
        out.update(status='discharged', detail='identity (no hypotheses needed)', n_cofactors=0)
        out['seconds'] = time.time() - t0
        return out
    cache = {}
    try:
        p_s = z3_to_sympy(p, cache)
        hyps_s_all = [z3_to_sympy(h, cache) for h in hyps]
    except ValueError as e:
        out['detail'] = 'goal/hypothesis not polynomial: %s' % e
        out['seconds'] = time.time() - t0
        return out
    zsyms = symbols_of(p)
    for h in hyps:
        symbols_of(h, zsyms)
    psyms = {s.name for s in p_s.free_symbols}
    hsyms = [{s.name for s in h.free_symbols} for h in hyps_s_all]
    idx = relevant_hyps(psyms, hsyms)
    hyps_s = [hyps_s_all[i] for i in idx]
    hyps_z = [hyps[i] for i in idx]
    allsyms = set(psyms)
    for i in idx:
        allsyms |= hsyms[i]
    pos = {nm: k for k, nm in enumerate(order)}
    names = sorted(allsyms, key=lambda nm: -pos.get(nm, -1))      # newest first
    gens = [sympy.Symbol(nm) for nm in names]
    if not gens:
        out['detail'] = 'constant non-zero goal'
        out['status'] = 'not-in-ideal'
        out['seconds'] = time.time() - t0
        return out
    key = _hint_key(p_s, hyps_s, gens)
    hint = _load_hint(key) if use_cache else None
    cof = None
    if hint is not None and hint.get('cofactors') is not None:
        try:
            cof = [sympy.Poly(sympy.sympify(c), *gens, domain='QQ') for c in hint['cofactors']]
            out['detail'] = 'cached hint'
        except Exception:
            cof = None
    elif hint is not None and hint.get('status') == 'not-in-ideal':
        out.update(status='not-in-ideal', detail='cached: non-zero remainder ' + hint.get('detail', ''))
        out['seconds'] = time.time() - t0
        return out
    if cof is None:
        try:
            with time_limit(timeout):
                cof, detail, status = _find_cofactors(p_s, hyps_s, gens, want_groebner)
        except Timeout:
            cof, detail, status = None, 'hint generator timed out after %ds' % timeout, 'unknown'
        except Exception as e:       # sympy failure: no proof, never a verdict
            cof, detail, status = None, 'hint generator failed: %r' % (e,), 'unknown'
        out['detail'] = detail
        if cof is None:
            out['status'] = status
            if status == 'not-in-ideal':
                _save_hint(key, {'status': status, 'detail': detail})
            out['seconds'] = time.time() - t0
            return out
        _save_hint(key, {'cofactors': [str(c.as_expr()) for c in cof], 'n_hyps': len(hyps_s)})
    # trusted check: p - sum c_i h_i == 0 in z3, built from the z3 goal and the z3 hypotheses
    acc = p
    for c, hz in zip(cof, hyps_z):
        if c.is_zero:
            continue
        acc = acc - sympy_to_z3(c, zsyms) * hz
    if check_identity(acc):
        out.update(status='discharged', n_cofactors=sum(1 for c in cof if not c.is_zero))
    else:
        out.update(status='unknown', detail=out['detail'] + '; z3 rejected the proposed cofactors')
    out['seconds'] = time.time() - t0
    return out


def _find_cofactors(p_s, hyps_s, gens, want_groebner):
    P = sympy.Poly(p_s, *gens, domain='QQ')
    if P.is_zero:
        return [sympy.Poly(0, *gens, domain='QQ') for _ in hyps_s], 'zero after expansion', 'ok'
    H = [sympy.Poly(h, *gens, domain='QQ') for h in hyps_s]
    keep = [i for i, h in enumerate(H) if not h.is_zero]
    Hn = [H[i] for i in keep]
    if not Hn:
        return None, 'goal does not expand to zero and there are no hypotheses', 'not-in-ideal'

    def place(q):
        cof = [sympy.Poly(0, *gens, domain='QQ') for _ in H]
        for i, c in zip(keep, q):
            cof[i] = sympy.Poly(c, *gens, domain='QQ')
        return cof
    q, r = sympy.reduced(P, Hn, *gens, order='lex', domain='QQ', polys=True)
    if r.is_zero:
        return place(q), 'reduced(lex) over the hypotheses', 'ok'
    if not want_groebner:
        return None, 'non-zero remainder (no Groebner step): %d terms' % len(r.terms()), 'unknown'
    # tagged Groebner basis: ideal <h_i - y_i>; normal form of p is P(x, y) with P(x, 0) == 0
    # iff p in <h_i>; substituting y_i := h_i gives the cofactors.
    ys = [sympy.Symbol('y!%d' % i) for i in range(len(Hn))]
    tagged = [h.as_expr() - y for h, y in zip(Hn, ys)]
    allg = list(gens) + ys
    G = sympy.groebner(tagged, *allg, order='lex', domain='QQ')
    _, nf = G.reduce(P.as_expr())
    nfp = sympy.Poly(nf, *allg, domain='QQ')
    ny = len(ys)
    cof_expr = [sympy.Integer(0)] * ny
    for mon, coef in nfp.terms():
        ymon = mon[len(gens):]
        if not any(ymon):
            return None, 'normal form has a tag-free term: goal not in the ideal', 'not-in-ideal'
        j = next(i for i, e in enumerate(ymon) if e)
        term = coef
        for g, e in zip(allg, mon):
            e2 = e
            if g is ys[j]:
                e2 = e - 1
            if e2:
                term = term * g ** e2
        cof_expr[j] = cof_expr[j] + term
    sub = {y: h.as_expr() for y, h in zip(ys, Hn)}
    q = [sympy.Poly(sympy.expand(c.subs(sub)), *gens, domain='QQ') for c in cof_expr]
    return place(q), 'tagged Groebner basis', 'ok'
