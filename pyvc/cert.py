"""pyvc.cert -- certificates for polynomial identities modulo hypotheses.

goal:  h_1 = 0, ..., h_n = 0  |-  p = 0        (all division-free z3 polynomial terms)

An UNTRUSTED hint generator (sympy) proposes cofactors c_i with p = sum c_i h_i.  The
only step that counts is z3 checking the hypothesis-free identity  p - sum c_i h_i == 0
(`check_identity`).  If sympy fails the obligation stays unknown; it can never forge a proof.
"""
import hashlib
import json
import os
import signal
import time
from fractions import Fraction

import sympy
import z3

HINT_DIR = os.path.join(os.path.dirname(os.path.dirname(os.path.abspath(__file__))), 'hints')


class Timeout(Exception):
    pass


def _alarm(signum, frame):
    raise Timeout()


class time_limit:
    def __init__(self, seconds):
        self.seconds = int(max(1, seconds))

    def __enter__(self):
        self.old = signal.signal(signal.SIGALRM, _alarm)
        signal.alarm(self.seconds)

    def __exit__(self, *a):
        signal.alarm(0)
        signal.signal(signal.SIGALRM, self.old)
        return False


# ---------------------------------------------------------------------------
# z3 -> sympy (untrusted direction: only feeds the hint generator)

def z3_to_sympy(t, cache=None):
    cache = {} if cache is None else cache

    def ev(e):
        k = e.get_id()
        if k not in cache:
            cache[k] = _ev(e)
        return cache[k]

    def _ev(e):
        if z3.is_rational_value(e):
            return sympy.Rational(e.numerator_as_long(), e.denominator_as_long())
        if z3.is_int_value(e):
            return sympy.Integer(e.as_long())
        kind = e.decl().kind()
        ch = e.children()
        if kind == z3.Z3_OP_UNINTERPRETED and not ch:
            return sympy.Symbol(e.decl().name())
        if kind == z3.Z3_OP_ADD:
            return sympy.Add(*[ev(c) for c in ch])
        if kind == z3.Z3_OP_MUL:
            return sympy.Mul(*[ev(c) for c in ch])
        if kind == z3.Z3_OP_SUB:
            r = ev(ch[0])
            for c in ch[1:]:
                r = r - ev(c)
            return r
        if kind == z3.Z3_OP_UMINUS:
            return -ev(ch[0])
        if kind == z3.Z3_OP_TO_REAL:
            return ev(ch[0])
        if kind == z3.Z3_OP_POWER and z3.is_int_value(ch[1]):
            return ev(ch[0]) ** ch[1].as_long()
        raise ValueError('not a polynomial term: %s' % e.decl().name())
    return ev(t)


def sympy_to_z3(poly, zsyms):
    """sympy Poly -> z3 term (products only, no power operator)"""
    terms = []
    gens = poly.gens
    for mon, coef in poly.terms():
        coef = sympy.Rational(coef)
        t = z3.RealVal('%d/%d' % (coef.p, coef.q)) if coef.q != 1 else z3.RealVal(int(coef.p))
        for g, e in zip(gens, mon):
            for _ in range(e):
                t = t * zsyms[g.name]
        terms.append(t)
    if not terms:
        return z3.RealVal(0)
    return z3.Sum(terms) if len(terms) > 1 else terms[0]


def symbols_of(t, acc=None):
    acc = {} if acc is None else acc
    seen = set()

    def rec(e):
        if e.get_id() in seen:
            return
        seen.add(e.get_id())
        if z3.is_const(e) and e.decl().kind() == z3.Z3_OP_UNINTERPRETED:
            acc[e.decl().name()] = e
        for c in e.children():
            rec(c)
    rec(t)
    return acc


# ---------------------------------------------------------------------------
# the trusted step

def check_identity(expr, timeout_ms=20000):
    """True iff z3 establishes expr == 0 as a polynomial identity (no hypotheses)"""
    from .lets import termsize
    if termsize(expr, 3000) <= 3000:
        # the rewriter has no time limit: only for moderate terms
        s = z3.simplify(expr, som=True)
        if z3.is_rational_value(s) and s.numerator_as_long() == 0:
            return True
    sol = z3.Solver()
    sol.set('timeout', timeout_ms)
    sol.add(expr != 0)
    return sol.check() == z3.unsat


# ---------------------------------------------------------------------------
# hint generation

def _hint_key(p_s, hyps_s, gens):
    h = hashlib.sha256()
    h.update(sympy.srepr(p_s).encode())
    for x in hyps_s:
        h.update(b'|')
        h.update(sympy.srepr(x).encode())
    h.update(('|' + ','.join(g.name for g in gens)).encode())
    return h.hexdigest()[:24]


def _load_hint(key):
    p = os.path.join(HINT_DIR, key[:2], key + '.json')
    if os.path.exists(p):
        try:
            with open(p) as f:
                return json.load(f)
        except Exception:
            return None
    return None


def _save_hint(key, data):
    if os.environ.get('PYVC_SAVE_HINTS', '1') != '1':
        return
    d = os.path.join(HINT_DIR, key[:2])
    os.makedirs(d, exist_ok=True)
    tmp = os.path.join(d, '%s.%d.tmp' % (key, os.getpid()))
    with open(tmp, 'w') as f:
        json.dump(data, f)
    os.replace(tmp, os.path.join(d, key + '.json'))


def relevant_hyps(p_syms, hyps_syms):
    """indices of hypotheses connected to the goal's symbols (transitively)"""
    cur = set(p_syms)
    used = set()
    changed = True
    while changed:
        changed = False
        for i, hs in enumerate(hyps_syms):
            if i in used:
                continue
            if hs & cur:
                used.add(i)
                if not hs <= cur:
                    cur |= hs
                changed = True
    return sorted(used)


def _sign_terms(facts):
    """terms t for which a fact literally states t != 0 (or t > 0, t < 0)"""
    out = []
    for f in facts:
        g = f
        neg = False
        if z3.is_not(g):
            g = g.arg(0)
            neg = True
        if z3.is_and(f):
            out.extend(_sign_terms(f.children()))
            continue
        k = g.decl().kind()
        if (neg and k == z3.Z3_OP_EQ) or (not neg and k == z3.Z3_OP_DISTINCT) or \
                (not neg and k in (z3.Z3_OP_GT, z3.Z3_OP_LT)):
            a, b = g.arg(0), g.arg(1)
            if z3.is_arith(a) and z3.is_arith(b):
                out.append(a - b)
    return out


def nonzero_from_facts(term, facts, timeout_ms=5000):
    """z3: facts |- term != 0.  First by matching a fact that literally says so (polynomial
    identity, no search), then a small query with the sign facts only, then the full query."""
    cands = _sign_terms(facts)
    for t in cands:
        try:
            if check_identity(term - t, 1000) or check_identity(term + t, 1000):
                return True
        except z3.Z3Exception:
            continue
    # small query: only the literal sign facts (products / multiples of known non-zero terms)
    sol = z3.Solver()
    sol.set('timeout', 2000)
    for t in cands:
        sol.add(t != 0)
    for f in facts:
        if z3.is_app(f) and f.decl().kind() in (z3.Z3_OP_GT, z3.Z3_OP_LT, z3.Z3_OP_GE, z3.Z3_OP_LE):
            sol.add(f)
    sol.add(term == 0)
    if sol.check() == z3.unsat:
        return True
    sol = z3.Solver()
    sol.set('timeout', timeout_ms)
    for f in facts:
        sol.add(f)
    sol.add(term == 0)
    return sol.check() == z3.unsat


def _numden(e, cache):
    """(num, den) division-free z3 terms with e == num/den"""
    k = e.get_id()
    if k in cache:
        return cache[k]
    one = z3.RealVal(1)
    kind = e.decl().kind()
    ch = e.children()
    if kind == z3.Z3_OP_DIV:
        (n1, d1), (n2, d2) = _numden(ch[0], cache), _numden(ch[1], cache)
        r = (n1 * d2, d1 * n2)
    elif kind == z3.Z3_OP_MUL:
        n, d = one, one
        for c in ch:
            nc, dc = _numden(c, cache)
            n, d = n * nc, d * dc
        r = (n, d)
    elif kind in (z3.Z3_OP_ADD, z3.Z3_OP_SUB):
        n, d = _numden(ch[0], cache)
        for c in ch[1:]:
            nc, dc = _numden(c, cache)
            if z3.eq(d, dc):
                n = n + nc if kind == z3.Z3_OP_ADD else n - nc
            else:
                n = n * dc + nc * d if kind == z3.Z3_OP_ADD else n * dc - nc * d
                d = d * dc
        r = (n, d)
    elif kind == z3.Z3_OP_UMINUS:
        n, d = _numden(ch[0], cache)
        r = (-n, d)
    else:
        r = (e, one)
    cache[k] = r
    return r


def same_value(a, b, cache):
    """z3-checked: a and b are the same rational function"""
    if z3.eq(a, b):
        return True
    (n1, d1), (n2, d2) = _numden(a, cache), _numden(b, cache)
    return check_identity(n1 * d2 - n2 * d1, 3000)


def abstract_ufs(terms):
    """replace every application of an uninterpreted function (exp, cosf, sinf, FormFactor_*, ...) by
    a fresh real constant; two applications get the SAME constant only if the functions are the same
    and z3 confirms that their arguments are identical polynomials.  Proving the abstracted goal is
    sound for the original one (no use of congruence beyond syntactically/identically equal arguments)."""
    table = []          # (decl name, [arg terms], const)
    cache = {}
    ndcache = {}

    def rec(e):
        k = e.get_id()
        if k in cache:
            return cache[k]
        ch = e.children()
        if not ch:
            cache[k] = e
            return e
        new_ch = [rec(c) for c in ch]
        if e.decl().kind() == z3.Z3_OP_UNINTERPRETED:
            nm = e.decl().name()
            hit = None
            for (n2, args2, const) in table:
                if n2 == nm and len(args2) == len(new_ch) and all(
                        same_value(a, b, ndcache) for a, b in zip(new_ch, args2)):
                    hit = const
                    break
            if hit is None:
                hit = z3.Real('uf!%s!%d' % (nm, len(table)))
                table.append((nm, new_ch, hit))
            cache[k] = hit
            return hit
        r = e.decl()(*new_ch)
        cache[k] = r
        return r
    out = [rec(t) for t in terms]
    return out, table


def _has_uf(t):
    seen = set()
    stack = [t]
    while stack:
        e = stack.pop()
        if e.get_id() in seen:
            continue
        seen.add(e.get_id())
        if e.num_args() > 0 and e.decl().kind() == z3.Z3_OP_UNINTERPRETED:
            return True
        stack.extend(e.children())
    return False


def prove_eq(p, hyps, order, timeout=30, use_cache=True, want_groebner=True, facts=(), hyp_main=None):
    """Try to prove p == 0 from hyps (lists of z3 terms). order: symbol names, creation order.
    A certificate is (M, c_i) with  M*p == sum c_i h_i  as a polynomial identity (checked by z3)
    and M != 0 under `facts` (checked by z3).
    returns dict(status='discharged'|'unknown'|'not-in-ideal', backend=..., detail=..., seconds=...)"""
    t0 = time.time()
    out = {'status': 'unknown', 'backend': 'certificate+z3', 'detail': ''}

    def fin():
        out['seconds'] = time.time() - t0
        return out
    # 0. plain identity
    if check_identity(p, 5000):
        out.update(status='discharged', detail='identity (no hypotheses needed)', n_cofactors=0)
        return fin()
    if _has_uf(p) or any(_has_uf(h) for h in hyps):
        (terms, table) = abstract_ufs([p] + list(hyps))
        p, hyps = terms[0], terms[1:]
        order = list(order) + [str(c_) for _, _, c_ in table]
        out['detail'] = 'uninterpreted applications abstracted to %d constants; ' % len(table)
        if check_identity(p, 5000):
            out.update(status='discharged', detail=out['detail'] + 'identity', n_cofactors=0)
            return fin()
    cache = {}
    try:
        p_s = z3_to_sympy(p, cache)
    except ValueError as e:
        out['detail'] = 'goal not polynomial: %s' % e
        return fin()
    hyps_ok, hyps_s_all, mains_all = [], [], []
    for h in hyps:
        try:
            hyps_s_all.append(z3_to_sympy(h, cache))
            hyps_ok.append(h)
            mains_all.append((hyp_main or {}).get(h.get_id()))
        except ValueError:
            continue          # a non-polynomial hypothesis is simply not used
    hyps = hyps_ok
    zsyms = symbols_of(p)
    for h in hyps:
        symbols_of(h, zsyms)
    psyms = {s.name for s in p_s.free_symbols}
    hsyms = [{s.name for s in h.free_symbols} for h in hyps_s_all]
    idx = relevant_hyps(psyms, hsyms)
    hyps_s = [hyps_s_all[i] for i in idx]
    hyps_z = [hyps[i] for i in idx]
    mains = [mains_all[i] for i in idx]
    allsyms = set(psyms)
    for i in idx:
        allsyms |= hsyms[i]
    pos = {nm: k for k, nm in enumerate(order)}
    names = sorted(allsyms, key=lambda nm: -pos.get(nm, -1))      # newest first
    gens = [sympy.Symbol(nm) for nm in names]
    if not gens:
        out.update(status='not-in-ideal', detail='constant non-zero goal')
        return fin()
    key = _hint_key(p_s, hyps_s, gens)
    hint = _load_hint(key) if use_cache else None
    cof = mult = None
    if hint is not None and hint.get('cofactors') is not None:
        try:
            cof = [sympy.Poly(sympy.sympify(c), *gens, domain='QQ') for c in hint['cofactors']]
            mult = sympy.Poly(sympy.sympify(hint.get('mult', '1')), *gens, domain='QQ')
            out['detail'] = 'cached hint (%s)' % hint.get('how', '')
        except Exception:
            cof = None

    if cof is None:
        try:
            mult, cof, detail, status = _find_cofactors(p_s, hyps_s, gens, want_groebner, timeout, mains)
        except Exception as e:       # sympy failure: no proof, never a verdict
            mult, cof, detail, status = None, None, 'hint generator failed: %r' % (e,), 'unknown'
        out['detail'] = out.get('detail', '') + detail if out.get('detail', '').startswith('uninterpreted') else detail
        if cof is None:
            out['status'] = status
            return fin()
        _save_hint(key, {'cofactors': [str(c.as_expr()) for c in cof], 'mult': str(mult.as_expr()),
                         'n_hyps': len(hyps_s), 'how': detail})
    # trusted check: M*p - sum c_i h_i == 0 in z3, built from the z3 goal and the z3 hypotheses
    one = mult.is_one
    mz = None if one else sympy_to_z3(mult, zsyms)
    acc = p if one else mz * p
    for c, hz in zip(cof, hyps_z):
        if c.is_zero:
            continue
        acc = acc - sympy_to_z3(c, zsyms) * hz
    if not check_identity(acc):
        out.update(status='unknown', detail=out['detail'] + '; z3 rejected the proposed cofactors')
        return fin()
    if not one:
        # M is a product of leading coefficients; each factor must be non-zero under the facts
        ok = True
        for fac, _e in sympy.factor_list(mult.as_expr())[1]:
            fz = sympy_to_z3(sympy.Poly(fac, *gens, domain='QQ'), zsyms)
            if not nonzero_from_facts(fz, list(facts)):
                ok = False
                out['detail'] += '; multiplier factor %s not shown non-zero' % str(fac)[:80]
                break
        if not ok:
            out['status'] = 'unknown'
            return fin()
        out['detail'] += ' with multiplier'
    out.update(status='discharged', n_cofactors=sum(1 for c in cof if not c.is_zero))
    return fin()


def _triangular(P, H, gens, allow_block=False, mains=None):
    """Wu-Ritt style reduction.  Each hypothesis has a main variable (its newest symbol).
    Hypotheses with a main variable of their own form the triangular part and are eliminated by
    successive pseudo-division (newest first): M * P = sum c_i h_i + R.  Hypotheses that share a
    main variable (e.g. the generators of SO(3) on an input matrix) form the block, returned for
    a Groebner step on the remainder.  Returns (M, cofactors, R, block indices) / None."""
    pos = {g: i for i, g in enumerate(gens)}          # gens are newest first
    items = []
    for idx, h in enumerate(H):
        if h.is_zero:
            continue
        fs = [g for g, d in zip(h.gens, h.degree_list()) if d > 0]
        if not fs:
            continue
        v = min(fs, key=lambda g: pos[g])
        if mains and mains[idx] is not None:
            cand = [g for g in fs if g.name == mains[idx]]
            if cand:
                v = cand[0]          # the hypothesis is a definition of this symbol
        items.append((pos[v], idx, v, h))
    items.sort()
    count = {}
    for pv, idx, v, h in items:
        count[pv] = count.get(pv, 0) + 1
    block = [idx for pv, idx, v, h in items if count[pv] > 1]
    if block and not allow_block:
        return None
    blockvars = set()
    changed = True
    while changed and block:
        changed = False
        for idx in block:
            blockvars |= {g for g, d in zip(H[idx].gens, H[idx].degree_list()) if d > 0}
        for pv, idx, v, h in items:
            if idx not in block and v in blockvars:
                block.append(idx)          # its main variable belongs to the block: part of the block
                count[pv] = 2
                changed = True
    R = P.as_expr()
    M = sympy.Integer(1)
    cof = [sympy.Integer(0)] * len(H)
    tried = 0
    for pv, idx, v, h in items:
        if R == 0:
            break
        if count[pv] > 1:
            continue
        if v in blockvars:
            return None            # a definition below the block: not handled
        if block and tried < 6 and sympy.degree(R, v) >= 1:
            # before unfolding this (older) definition: is the remainder already in the ideal of the block?
            try:
                if len(sympy.Add.make_args(R)) <= 600:
                    tried += 1
                    bc, _d, _dec = _block_reduce(R, H, block, gens)
                    if bc is not None:
                        return M, cof, R, block
            except Exception:
                pass
        he = h.as_expr()
        dR = sympy.degree(R, v)
        dh = sympy.degree(he, v)
        if dR < dh:
            continue
        lc = sympy.LC(he, v)
        if lc.is_number:
            q, r = sympy.div(R, he, v)
            mult = sympy.Integer(1)
        else:
            q, r = sympy.pdiv(R, he, v)
            mult = lc ** (dR - dh + 1)
        if mult != 1:
            cof = [sympy.expand(c * mult) if c != 0 else c for c in cof]
            M = M * mult
        cof[idx] = cof[idx] + q
        R = sympy.expand(r)
    return M, cof, R, block


_GB_CACHE = {}


def _block_reduce(R, H, block, gens):
    """R modulo the ideal of the block hypotheses: Groebner basis (grevlex) of the block alone,
    each basis element lifted to a constant combination of the block generators.
    -> (cofactor exprs per hypothesis index | None, detail, decided_not_in_ideal)"""
    Hb = [H[i] for i in block]
    bvars = []
    for h in Hb:
        for g, d in zip(h.gens, h.degree_list()):
            if d > 0 and g not in bvars:
                bvars.append(g)
    key = tuple(sympy.srepr(h.as_expr()) for h in Hb)
    if key not in _GB_CACHE:
        G = sympy.groebner([h.as_expr() for h in Hb], *bvars, order='grevlex', domain='QQ')
        Gp = [sympy.Poly(g, *bvars, domain='QQ') for g in G.exprs]
        Hbp = [sympy.Poly(h.as_expr(), *bvars, domain='QQ') for h in Hb]
        lifts = [_lift_linear(g, Hbp, bvars) for g in Gp]
        _GB_CACHE[key] = (Gp, lifts)
    Gp, lifts = _GB_CACHE[key]
    others = [g for g in gens if g not in bvars]
    # R is a polynomial in the block variables with coefficients in the other symbols
    dom = sympy.QQ.frac_field(*others) if others else sympy.QQ
    Rp = sympy.Poly(R, *bvars, domain=dom)
    qs, r = sympy.reduced(Rp.as_expr(), [g.as_expr() for g in Gp], *bvars, order='grevlex', domain=dom)
    if sympy.simplify(r) != 0:
        return None, 'non-zero normal form modulo the Groebner basis of the block', True
    cof = {}
    for qk, lam in zip(qs, lifts):
        if qk == 0:
            continue
        if lam is None:
            return None, 'a Groebner element of the block has no constant lift', False
        for i, l in zip(block, lam):
            if l != 0:
                cof[i] = cof.get(i, 0) + qk * l
    return cof, 'Groebner basis of the block (grevlex) + linear lift', False


def _lift_linear(g, Hn, gens):
    """constants lam with g == sum lam_i h_i (None if there are none)"""
    mons = {}
    cols = []
    for h in Hn:
        col = {}
        for mon, coef in h.terms():
            col[mon] = coef
            mons.setdefault(mon, len(mons))
        cols.append(col)
    rhs = {}
    for mon, coef in g.terms():
        rhs[mon] = coef
        if mon not in mons:
            return None
    A = sympy.zeros(len(mons), len(Hn))
    b = sympy.zeros(len(mons), 1)
    for j, col in enumerate(cols):
        for mon, coef in col.items():
            A[mons[mon], j] = coef
    for mon, coef in rhs.items():
        b[mons[mon], 0] = coef
    try:
        sol, params = A.gauss_jordan_solve(b)
    except ValueError:
        return None
    sub = {p_: 0 for p_ in params}
    return [sympy.Rational(x.subs(sub)) for x in sol]


def _find_cofactors(p_s, hyps_s, gens, want_groebner, timeout=30, mains=None):
    """-> (multiplier Poly, cofactor Polys | None, detail, status); three strategies, each with a
    third of the time budget: triangular pseudo-division, lex division, Groebner basis + lift"""
    one = sympy.Poly(1, *gens, domain='QQ')
    P = sympy.Poly(p_s, *gens, domain='QQ')
    if P.is_zero:
        return one, [sympy.Poly(0, *gens, domain='QQ') for _ in hyps_s], 'zero after expansion', 'ok'
    H = [sympy.Poly(h, *gens, domain='QQ') for h in hyps_s]
    keep = [i for i, h in enumerate(H) if not h.is_zero]
    Hn = [H[i] for i in keep]
    if not Hn:
        return None, None, 'goal does not expand to zero and there are no hypotheses', 'not-in-ideal'

    def place(q):
        cof = [sympy.Poly(0, *gens, domain='QQ') for _ in H]
        for i, c in zip(keep, q):
            cof[i] = sympy.Poly(c, *gens, domain='QQ')
        return cof
    share = max(2, timeout // 2)
    notes = []
    decided_not = False
    mains_n = [mains[i] for i in keep] if mains else None
    # strategy 0: the goal is a constant-coefficient combination of the hypotheses (linear algebra only)
    try:
        lam = _lift_linear(P, Hn, gens)
        if lam is not None:
            return one, place([sympy.Poly(l, *gens, domain='QQ') for l in lam]), 'constant combination of the hypotheses', 'ok'
    except Exception:
        pass
    try:
        with time_limit(share):
            tri = _triangular(P, Hn, gens, allow_block=True, mains=mains_n)
            if tri is None:
                notes.append('hypotheses are not triangular-plus-block')
            else:
                M, cof, R, block = tri
                if R == 0:
                    return sympy.Poly(M, *gens, domain='QQ'), place(cof), 'triangular pseudo-division', 'ok'
                if block:
                    bc, detail, decided = _block_reduce(R, Hn, block, gens)
                    if bc is not None:
                        # cofactors of the block may be rational in the non-block symbols: clear denominators
                        den = sympy.Integer(1)
                        for c in bc.values():
                            den = sympy.lcm(den, sympy.fraction(sympy.together(c))[1])
                        if den != 1:
                            cof = [sympy.expand(c * den) if c != 0 else c for c in cof]
                            M = M * den
                        for i, c in bc.items():
                            cof[i] = cof[i] + sympy.cancel(sympy.together(c * den))
                        return (sympy.Poly(sympy.expand(M), *gens, domain='QQ'), place([sympy.expand(c) for c in cof]),
                                'triangular pseudo-division + ' + detail, 'ok')
                    notes.append(detail)
                    if decided:
                        return None, None, '; '.join(notes), 'not-in-ideal'
                else:
                    notes.append('triangular pseudo-remainder has %d terms' % len(sympy.Poly(R, *gens).terms()))
    except Timeout:
        notes.append('triangular reduction timed out')
    try:
        with time_limit(share):
            q, r = sympy.reduced(P, Hn, *gens, order='lex', domain='QQ', polys=True)
        if r.is_zero:
            return one, place(q), 'division by the hypotheses (lex)', 'ok'
        notes.append('lex division leaves %d terms' % len(r.terms()))
    except Timeout:
        notes.append('lex division timed out')
    if not want_groebner:
        return None, None, '; '.join(notes), 'unknown'
    try:
        with time_limit(share):
            G = sympy.groebner([h.as_expr() for h in Hn], *gens, order='grevlex', domain='QQ')
            Gp = [sympy.Poly(g, *gens, domain='QQ') for g in G.exprs]
            qs, r = sympy.reduced(P.as_expr(), [g.as_expr() for g in Gp], *gens, order='grevlex', domain='QQ')
            if r != 0:
                return None, None, '; '.join(notes) + '; non-zero normal form modulo the Groebner basis (%d terms)' \
                    % len(sympy.Poly(r, *gens).terms()), 'not-in-ideal'
            cof = [sympy.Integer(0)] * len(Hn)
            for qk, gk in zip(qs, Gp):
                if qk == 0:
                    continue
                lam = _lift_linear(gk, Hn, gens)
                if lam is None:
                    return None, None, '; '.join(notes) + '; in the ideal, but no constant lift of a Groebner ' \
                        'element to the hypotheses', 'unknown'
                for i, l in enumerate(lam):
                    if l != 0:
                        cof[i] = cof[i] + qk * l
            return one, place([sympy.expand(c) for c in cof]), 'Groebner basis (grevlex) + linear lift', 'ok'
    except Timeout:
        notes.append('Groebner step timed out')
    return None, None, '; '.join(notes), 'unknown'
