"""load the space-group tables from the current source of xfab/sglib.py and xfab/sg.py"""
import ast
import os
from fractions import Fraction

from .source import Source


def load_classes(src=None):
    """exec the real class definitions of sglib.py (they only assign literals) -> {name: class}"""
    src = src or Source()
    tree = src.module('sglib')
    ns = {}
    code = compile(tree, src.path('sglib'), 'exec')
    exec(code, ns)
    return {k: v for k, v in ns.items() if isinstance(v, type) and k.startswith('Sg')}


def cell_choice_uses(src=None):
    """every syntactic use of cell_choice inside the class bodies, as unparsed strings"""
    src = src or Source()
    uses = {}
    for node in ast.walk(src.module('sglib')):
        if isinstance(node, ast.Compare):
            txt = ast.unparse(node)
            if 'cell_choice' in txt:
                uses[txt] = uses.get(txt, 0) + 1
    return uses


def snap24(x):
    """(n, err): the nearest n/24 to the decimal literal x"""
    q = Fraction(repr(float(x)))
    n = round(q * 24)
    return n, abs(q - Fraction(n, 24))


def tables(src=None):
    """[(class name, setting, obj)] for standard and, where the class distinguishes it, rhombohedral"""
    out = []
    classes = load_classes(src)
    for name in sorted(classes, key=lambda s: int(s[2:])):
        k = classes[name]
        std = k(cell_choice='standard')
        out.append((name, 'standard', std))
        rh = k(cell_choice='rhombohedral')
        if (rh.rot != std.rot) or (rh.trans != std.trans) or rh.cell_choice != std.cell_choice:
            out.append((name, 'rhombohedral', rh))
    return out
