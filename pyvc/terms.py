"""pyvc.terms -- symbolic values for the VC generator.

A symbolic real `R` is a fraction pair (n, d) of division-free z3 polynomial terms
(d is None for 1).  Arithmetic on R builds z3 terms directly from the program's
operations, so every goal handed to the solver is "source -> z3".  Angles are reals
that additionally carry a linear form over angle symbols with coefficients in Q*pi^k,
so that cos/sin can be expanded to per-symbol atoms (C, S) with C^2+S^2=1.

Everything here also works on plain floats (numeric mode): the helper functions
(cos, sin, sqrt, arccos, Eq, ...) dispatch on the argument type, which lets one
contract text serve the proof, the replay and the engine validation.
"""
import math
from fractions import Fraction
import z3

# ---------------------------------------------------------------------------
# context


class PathEnd(Exception):
    """raised to abandon a path (assume False)"""


class OutsideSubset(Exception):
    pass


class HintUnavailable(Exception):
    """a lazy proof hint refers to a square root the code has not introduced (yet)"""


class Ctx:
    """State of one symbolic path."""

    def __init__(self, decisions=()):
        self.decisions = list(decisions)      # forced prefix of branch decisions
        self.taken = []                       # decisions actually taken
        self.pending = []                     # alternative prefixes discovered
        self.facts = []                       # z3 Bool assumed (pre, callee post, defs)
        self.hyps = []                        # z3 polynomial terms known == 0
        self.pc = []                          # z3 Bool path decisions
        self.obligations = []                 # collected during the run
        self.numdefs = {}                     # symbol name -> callable(env)->float
        self.order = []                       # symbol names in creation order
        self.atoms = {}                       # (sym, q, k) -> (C, S)
        self.base = {}                        # sym -> (q, k) base coefficient
        self.angsym = {}                      # sym -> R
        self.counter = 0
        self.memo = {}
        self.feas_timeout = 800
        self.sqrt_hints = []
        self.sign_hints = []
        self.signfacts = []                   # (rel, truth) of branch conditions taken
        self.speculative = False              # evaluating proof hints: divisions assert nothing
        self.lookup_only = False              # lazy hints may only re-use existing sqrt symbols
        self.ufnum = {}                       # numeric meaning of uninterpreted functions (engine validation)
        self.hyp_main = {}                    # z3 ast id of a hypothesis -> name of the symbol it defines
        self.probe_env = None
        self.nosplit = False
        self.notes = []

    def fresh(self, stem):
        self.counter += 1
        return '%s!%d' % (stem, self.counter)

    # -- assumptions / goals ------------------------------------------------
    def assume(self, b, hyp=True):
        for c in flatten_conj(b):
            if isinstance(c, NumCheck):
                c = c.ok
            if c is True:
                continue
            if c is False:
                raise PathEnd()
            self.facts.append(c.z)
            if c.eq is not None:
                p = eq_poly(*c.eq)
                if p is not None:
                    if c.eq[0].d is not None or c.eq[1].d is not None:
                        self.facts.append(p == 0)        # division-free form for the solvers
                    if hyp:
                        self.hyps.append(p)

    def oblige(self, name, b, kind=None):
        for i, c in enumerate(flatten_conj(b)):
            nm = name if i == 0 and not isinstance(b, (list, tuple)) else '%s#%d' % (name, i)
            if isinstance(c, NumCheck):
                c = c.ok
            if c is True:
                continue
            if c is False:
                c = B(z3.BoolVal(False))
            self.obligations.append(Obligation(nm, c, self))

    def decide(self, cond):
        """Branch on a symbolic condition (decision replay)."""
        i = len(self.taken)
        if i < len(self.decisions):
            d = self.decisions[i]
        else:
            ft = self.feasible(cond)
            ff = self.feasible(z3.Not(cond))
            if ft and ff:
                d = True
                self.pending.append(self.taken + [False])
            elif ft:
                d = True
            elif ff:
                d = False
            else:
                raise PathEnd()
        self.taken.append(d)
        self.pc.append(cond if d else z3.Not(cond))
        return d

    def feasible(self, cond):
        s = z3.Solver()
        s.set('timeout', self.feas_timeout)
        for f in self.facts:
            s.add(f)
        for f in self.pc:
            s.add(f)
        s.add(cond)
        return s.check() != z3.unsat


_CTX = [None]


def ctx():
    c = _CTX[0]
    if c is None:
        raise RuntimeError('no symbolic context')
    return c


def set_ctx(c):
    _CTX[0] = c


class Obligation:
    def __init__(self, name, b, c):
        self.name = name
        self.goal = b.z
        self.eq = b.eq
        self.facts = list(c.facts)
        self.pc = list(c.pc)
        self.hyps = list(c.hyps)
        self.path = ''.join('T' if d else 'F' for d in c.taken)
        self.ctx = c
        self.kind = 'poly-id' if b.eq is not None else 'smt'
        self.tol = b.tol
        self.rel = b.rel
        self.sign_hints = list(c.sign_hints)
        self.signfacts = list(c.signfacts)


# ---------------------------------------------------------------------------
# constants

def is_num(x):
    return isinstance(x, (int, Fraction, float)) and not isinstance(x, bool)


def to_frac(x):
    if isinstance(x, Fraction):
        return x
    if isinstance(x, int):
        return Fraction(x)
    if isinstance(x, float):
        if x != x or x in (float('inf'), float('-inf')):
            raise OutsideSubset('non-finite float constant')
        # float literals are read as the decimal number written in the source
        return Fraction(repr(x))
    import numpy as _np
    if isinstance(x, _np.integer):
        return Fraction(int(x))
    if isinstance(x, _np.floating):
        return Fraction(repr(float(x)))
    raise TypeError(type(x))


def zconst(q):
    q = to_frac(q)
    if q.denominator == 1:
        return z3.RealVal(q.numerator)
    return z3.RealVal('%d/%d' % (q.numerator, q.denominator))


# ---------------------------------------------------------------------------
# Q*pi^k coefficients for angle forms

def qp_mul(a, b):
    if a[0] == 0 or b[0] == 0:
        return (Fraction(0), 0)
    return (a[0] * b[0], a[1] + b[1])


def qp_div(a, b):
    if a[0] == 0:
        return (Fraction(0), 0)
    return (a[0] / b[0], a[1] - b[1])


def qp_add(a, b):
    if a[0] == 0:
        return b
    if b[0] == 0:
        return a
    if a[1] != b[1]:
        return None
    s = a[0] + b[0]
    return (s, a[1]) if s != 0 else (Fraction(0), 0)


ZERO = (Fraction(0), 0)


def ang_add(a, b, sign=1):
    if a is None or b is None:
        return None
    d = dict(a[0])
    for s, c in b[0].items():
        c = (c[0] * sign, c[1])
        if s in d:
            r = qp_add(d[s], c)
            if r is None:
                return None
            if r[0] == 0:
                del d[s]
            else:
                d[s] = r
        else:
            d[s] = c
    k = qp_add(a[1], (b[1][0] * sign, b[1][1]))
    if k is None:
        return None
    return (d, k)


def ang_scale(a, c, div=False):
    if a is None:
        return None
    f = qp_div if div else qp_mul
    return ({s: f(v, c) for s, v in a[0].items()}, f(a[1], c))


def ang_const(a):
    """if the form is a pure constant q*pi^k return (q,k) else None"""
    if a is None or a[0]:
        return None
    return a[1]


# ---------------------------------------------------------------------------
# symbolic real

class R:
    __slots__ = ('n', 'd', 'ang')
    __array_priority__ = 1000

    def __init__(self, n, d=None, ang=None):
        self.n = n
        self.d = d
        self.ang = ang

    # value as a single z3 term
    @property
    def z(self):
        return self.n if self.d is None else self.n / self.d

    def __repr__(self):
        return 'R(%s)' % (self.z,)

    # arithmetic -------------------------------------------------------
    def __add__(self, o):
        if hasattr(o, 'flat_items'):
            return NotImplemented
        return _add(self, o, 1)

    def __radd__(self, o):
        return _add(lift(o), self, 1)

    def __sub__(self, o):
        if hasattr(o, 'flat_items'):
            return NotImplemented
        return _add(self, o, -1)

    def __rsub__(self, o):
        return _add(lift(o), self, -1)

    def __neg__(self):
        return R(-self.n, self.d, ang_scale(self.ang, (Fraction(-1), 0)))

    def __pos__(self):
        return self

    def __mul__(self, o):
        if hasattr(o, 'flat_items'):
            return NotImplemented
        return _mul(self, o)

    def __rmul__(self, o):
        return _mul(self, o)

    def __truediv__(self, o):
        if hasattr(o, 'flat_items'):
            return NotImplemented
        return _div(self, o)

    def __rtruediv__(self, o):
        return _div(lift(o), self)

    def __pow__(self, e):
        if isinstance(e, Fraction) and e.denominator == 1:
            e = int(e)
        if isinstance(e, float) and e == int(e):
            e = int(e)
        if not isinstance(e, int):
            raise OutsideSubset('non-integer power')
        if e == 0:
            return 1
        if e < 0:
            return 1 / (self ** (-e))
        r = self
        for _ in range(e - 1):
            r = r * self
        return r

    def __abs__(self):
        return ite(self >= 0, self, -self)

    def __float__(self):
        raise OutsideSubset('float() of a symbolic real')

    # comparisons --------------------------------------------------------
    def __lt__(self, o):
        a, b = _cmp_sides(self, lift(o))
        return B(a < b, rel=('>', o, self))

    def __le__(self, o):
        a, b = _cmp_sides(self, lift(o))
        return B(a <= b, rel=('>=', o, self))

    def __gt__(self, o):
        a, b = _cmp_sides(self, lift(o))
        return B(a > b, rel=('>', self, o))

    def __ge__(self, o):
        a, b = _cmp_sides(self, lift(o))
        return B(a >= b, rel=('>=', self, o))

    def __eq__(self, o):
        if o is None:
            return False
        o = lift(o)
        return B(self.z == o.z, eq=(self, o))

    def __ne__(self, o):
        if o is None:
            return True
        return B(self.z != lift(o).z, rel=('!=', self, o))

    __hash__ = None


def _obviously_positive(d):
    """a denominator that is positive by construction: a positive numeral, pi, or a product of such"""
    if d is None:
        return True
    if z3.is_rational_value(d):
        return d.numerator_as_long() > 0
    if z3.is_const(d) and d.decl().name() == PI_NAME:
        return True
    if z3.is_app_of(d, z3.Z3_OP_MUL):
        return all(_obviously_positive(c) for c in d.children())
    return False


def _cmp_sides(a, b):
    """terms to compare: denominators that are positive by construction are multiplied out (keeps e.g.
    theta*180/pi <= 180 linear)"""
    if (a.d is None and b.d is None) or not (_obviously_positive(a.d) and _obviously_positive(b.d)):
        return a.z, b.z
    if a.d is None:
        return a.n * b.d, b.n
    if b.d is None:
        return a.n, b.n * a.d
    if z3.eq(a.d, b.d):
        return a.n, b.n
    return a.n * b.d, b.n * a.d


def lift(x):
    if isinstance(x, R):
        return x
    if isinstance(x, I):
        return R(z3.ToReal(x.z))
    q = to_frac(x)
    return R(zconst(q), None, ({}, (q, 0)))


def _isconst(x):
    return not isinstance(x, (R, I))


def _add(a, b, sign):
    if _isconst(b):
        q = to_frac(b)
        if q == 0:
            return a
        b = lift(q)
    if _isconst(a):
        a = lift(a)
    if isinstance(b, I):
        b = lift(b)
    if isinstance(a, I):
        a = lift(a)
    ang = ang_add(a.ang, b.ang, sign)
    if a.d is None and b.d is None:
        return R(a.n + b.n if sign > 0 else a.n - b.n, None, ang)
    if a.d is not None and b.d is not None and z3.eq(a.d, b.d):
        return R(a.n + b.n if sign > 0 else a.n - b.n, a.d, ang)
    if a.d is None:
        return R(a.n * b.d + b.n if sign > 0 else a.n * b.d - b.n, b.d, ang)
    if b.d is None:
        return R(a.n + b.n * a.d if sign > 0 else a.n - b.n * a.d, a.d, ang)
    return R(a.n * b.d + b.n * a.d if sign > 0 else a.n * b.d - b.n * a.d, a.d * b.d, ang)


def _mul(a, b):
    if _isconst(b):
        q = to_frac(b)
        if q == 0:
            return 0
        if q == 1:
            return a
        if q == -1:
            return -a
        return R(zconst(q) * a.n, a.d, ang_scale(a.ang, (q, 0)))
    if isinstance(b, I):
        b = lift(b)
    ang = None
    ca, cb = ang_const(a.ang), ang_const(b.ang)
    if cb is not None:
        ang = ang_scale(a.ang, cb)
    elif ca is not None:
        ang = ang_scale(b.ang, ca)
    if a.d is None and b.d is None:
        return R(a.n * b.n, None, ang)
    if a.d is None:
        return R(a.n * b.n, b.d, ang)
    if b.d is None:
        return R(a.n * b.n, a.d, ang)
    return R(a.n * b.n, a.d * b.d, ang)


def _div(a, b):
    if _isconst(b):
        q = to_frac(b)
        if q == 0:
            raise ZeroDivisionError('division by constant zero')
        return _mul(a, 1 / q)
    if isinstance(b, I):
        b = lift(b)
    if _isconst(a):
        a = lift(a)
    c = ctx()
    if not c.speculative:
        # safety obligation: denominator non-zero
        c.oblige('div_nonzero', B(b.n != 0, rel=('!=', R(b.n), 0)))
        c.facts.append(b.n != 0)          # cut
    ang = None
    cb = ang_const(b.ang)
    if cb is not None and cb[0] != 0:
        ang = ang_scale(a.ang, cb, div=True)
    n = a.n if b.d is None else a.n * b.d
    d = b.n if a.d is None else a.d * b.n
    return R(n, d, ang)


# ---------------------------------------------------------------------------
# symbolic integer

class ModVal:
    """|x| % c for a symbolic x whose residue class is known but whose sign is not: only the
    comparison with 0 is meaningful (|x| % c == 0  <=>  x % c == 0)"""

    def __init__(self, nonzero):
        self.nonzero = nonzero

    def __eq__(self, o):
        if isinstance(o, int) and o == 0:
            return not self.nonzero
        raise OutsideSubset('|x| % c compared with a non-zero value')

    def __ne__(self, o):
        if isinstance(o, int) and o == 0:
            return self.nonzero
        raise OutsideSubset('|x| % c compared with a non-zero value')

    __hash__ = None


def _lin_add(a, b, sign=1):
    if a is None or b is None:
        return None
    d = dict(a[0])
    for k_, v in b[0].items():
        d[k_] = d.get(k_, 0) + sign * v
        if d[k_] == 0:
            del d[k_]
    return (d, a[1] + sign * b[1])


class I:
    __slots__ = ('z', 'lin', 'absof')
    __array_priority__ = 1000

    def __init__(self, z, lin=None, absof=None):
        self.z = z
        self.lin = lin            # ({z3 var name: int coef}, int const) when the value is a linear form
        self.absof = absof        # x when the value is |x|

    def __repr__(self):
        return 'I(%s)' % (self.z,)

    @staticmethod
    def _c(o):
        if isinstance(o, I):
            return o.z
        if isinstance(o, bool):
            return z3.IntVal(int(o))
        if isinstance(o, int):
            return z3.IntVal(o)
        try:
            import numpy as _np
            if isinstance(o, _np.integer):
                return z3.IntVal(int(o))
        except ImportError:
            pass
        return None

    @staticmethod
    def _lin(o):
        if isinstance(o, I):
            return o.lin
        if isinstance(o, bool):
            return ({}, int(o))
        try:
            return ({}, int(o)) if int(o) == o else None
        except (TypeError, ValueError):
            return None

    def _bin(self, o, f, rf, lin=None):
        z = I._c(o)
        if z is not None:
            return I(f(self.z, z), lin)
        return rf(lift(self), o)

    def __add__(self, o):
        return self._bin(o, lambda a, b: a + b, lambda a, b: a + b, _lin_add(self.lin, I._lin(o)))

    __radd__ = __add__

    def __sub__(self, o):
        return self._bin(o, lambda a, b: a - b, lambda a, b: a - b, _lin_add(self.lin, I._lin(o), -1))

    def __rsub__(self, o):
        z = I._c(o)
        if z is not None:
            return I(z - self.z, _lin_add(I._lin(o), self.lin, -1))
        return lift(o) - lift(self)

    def __mul__(self, o):
        lo = I._lin(o)
        lin = None
        if self.lin is not None and lo is not None:
            if not lo[0]:
                lin = ({k_: v * lo[1] for k_, v in self.lin[0].items() if v * lo[1] != 0}, self.lin[1] * lo[1])
            elif not self.lin[0]:
                lin = ({k_: v * self.lin[1] for k_, v in lo[0].items() if v * self.lin[1] != 0}, lo[1] * self.lin[1])
        return self._bin(o, lambda a, b: a * b, lambda a, b: a * b, lin)

    __rmul__ = __mul__

    def __neg__(self):
        lin = None if self.lin is None else ({k_: -v for k_, v in self.lin[0].items()}, -self.lin[1])
        return I(-self.z, lin)

    def __pos__(self):
        return self

    def __abs__(self):
        return I(z3.If(self.z >= 0, self.z, -self.z), None, absof=self)

    def __mod__(self, o):
        z = I._c(o)
        if z is None:
            raise OutsideSubset('mod by non-integer')
        if isinstance(o, int):
            if o == 0:
                raise ZeroDivisionError('integer modulo by zero')
            if o < 0:
                raise OutsideSubset('mod by negative constant')
            # residue classes: with every variable coefficient a multiple of o the value is concrete
            src_ = self.absof if self.absof is not None else self
            if src_.lin is not None and all(v % o == 0 for v in src_.lin[0].values()):
                r = src_.lin[1] % o
                if self.absof is None:
                    return r
                return ModVal(r != 0)
        else:
            ctx().oblige('mod_nonzero', B(z != 0))
        return I(self.z % z)          # z3 mod == Python % for positive divisor

    def __floordiv__(self, o):
        z = I._c(o)
        if z is None or not isinstance(o, int) or o <= 0:
            raise OutsideSubset('floordiv by non-constant')
        return I(self.z / z)

    def __truediv__(self, o):
        return lift(self) / o

    def __rtruediv__(self, o):
        return lift(o) / lift(self)

    def __pow__(self, e):
        if not isinstance(e, int) or e < 0:
            raise OutsideSubset('int power')
        r = 1
        for _ in range(e):
            r = self * r
        return r

    def __float__(self):
        raise OutsideSubset('float() of symbolic int')

    def _cmp(self, o, f):
        z = I._c(o)
        if z is not None:
            return B(f(self.z, z))
        return B(f(z3.ToReal(self.z), lift(o).z))

    def __lt__(self, o):
        return self._cmp(o, lambda a, b: a < b)

    def __le__(self, o):
        return self._cmp(o, lambda a, b: a <= b)

    def __gt__(self, o):
        return self._cmp(o, lambda a, b: a > b)

    def __ge__(self, o):
        return self._cmp(o, lambda a, b: a >= b)

    def __eq__(self, o):
        if o is None:
            return False
        return self._cmp(o, lambda a, b: a == b)

    def __ne__(self, o):
        if o is None:
            return True
        return self._cmp(o, lambda a, b: a != b)

    __hash__ = None


# ---------------------------------------------------------------------------
# symbolic bool

class B:
    __slots__ = ('z', 'eq', 'tol', 'rel')

    def __init__(self, z, eq=None, tol=None, rel=None):
        self.z = z
        self.eq = eq
        self.tol = tol
        self.rel = rel          # (op, a, b) meaning  a - b  op  0   with op in '>', '>=', '!='

    def __bool__(self):
        c = ctx()
        if c.nosplit:
            raise OutsideSubset('bool() of symbolic condition in no-split region')
        zs = z3.simplify(self.z)
        if z3.is_true(zs):
            return True
        if z3.is_false(zs):
            return False
        d = c.decide(self.z)
        if self.rel is not None:
            c.signfacts.append((self.rel, d))
        return d

    def __and__(self, o):
        return And(self, o)

    def __or__(self, o):
        return Or(self, o)

    def __invert__(self):
        return Not(self)

    def __eq__(self, o):
        if isinstance(o, bool):
            return self if o else Not(self)
        if isinstance(o, B):
            return B(self.z == o.z)
        if isinstance(o, int):           # e.g. `output_stl == False`
            return self if o else Not(self)
        return False

    def __ne__(self, o):
        return Not(self.__eq__(o))

    __hash__ = None

    def __repr__(self):
        return 'B(%s)' % (self.z,)


def _bz(x):
    if isinstance(x, B):
        return x.z
    if isinstance(x, NumCheck):
        return z3.BoolVal(x.ok)
    if isinstance(x, (bool,)):
        return z3.BoolVal(x)
    import numpy as _np
    if isinstance(x, _np.bool_):
        return z3.BoolVal(bool(x))
    raise TypeError('not a boolean: %r' % (x,))


class Conj:
    """a conjunction kept as a list so that goals can be split and named"""

    def __init__(self, items):
        self.items = items

    def __bool__(self):
        return bool(And(*[i for i in flatten_conj(self)]))


def flatten_conj(b):
    if isinstance(b, Conj):
        out = []
        for i in b.items:
            out.extend(flatten_conj(i))
        return out
    if isinstance(b, (list, tuple)):
        out = []
        for i in b:
            out.extend(flatten_conj(i))
        return out
    if isinstance(b, (B, NumCheck)):
        return [b]
    import numpy as _np
    if isinstance(b, (bool, _np.bool_)):
        return [bool(b)]
    raise TypeError('not a condition: %r' % (b,))


def symbolic(*xs):
    for x in xs:
        if isinstance(x, (R, I, B, Conj)):
            return True
        if isinstance(x, (list, tuple)) and symbolic(*x):
            return True
        if hasattr(x, 'flat_items') and symbolic(*x.flat_items()):
            return True
    return False


def And(*xs):
    if not symbolic(*xs):
        return all(bool(x) for x in xs)
    zs = []
    rel = None
    for x in xs:
        for c in flatten_conj(x):
            if isinstance(c, NumCheck):
                c = c.ok
            if c is False:
                return False
            if c is True:
                continue
            zs.append(c.z)
            rel = c.rel
    if not zs:
        return True
    if len(zs) == 1:
        return B(zs[0], rel=rel)
    return B(z3.And(*zs))


def Or(*xs):
    if not symbolic(*xs):
        return any(bool(x) for x in xs)
    zs = []
    for x in xs:
        if isinstance(x, Conj):
            x = And(x)
        if isinstance(x, NumCheck):
            x = x.ok
        if x is True:
            return True
        if x is False:
            continue
        zs.append(_bz(x))
    if not zs:
        return False
    return B(z3.Or(*zs) if len(zs) > 1 else zs[0])


def Not(x):
    if isinstance(x, Conj):
        x = And(x)
    if not isinstance(x, B):
        return not x
    if x.eq is not None:
        return B(z3.Not(x.z), rel=('!=', x.eq[0], x.eq[1]))
    return B(z3.Not(x.z))


def Implies(a, b):
    if isinstance(a, Conj):
        a = And(a)
    if isinstance(b, (Conj, list, tuple)):
        b = And(b)
    if not isinstance(a, B):
        return b if a else True
    if not isinstance(b, B):
        return True if b else Not(a)
    return B(z3.Implies(a.z, b.z))


def conj(*xs):
    return Conj(list(xs))


def ite(c, a, b):
    if not isinstance(c, B):
        return a if c else b
    if isinstance(a, I) or isinstance(b, I) or (isinstance(a, int) and isinstance(b, int)
                                                and not isinstance(a, bool)):
        za, zb = I._c(a), I._c(b)
        if za is not None and zb is not None:
            return I(z3.If(c.z, za, zb))
    if isinstance(a, (B, bool)) and isinstance(b, (B, bool)):
        return B(z3.If(c.z, _bz(a), _bz(b)))
    a, b = lift(a), lift(b)
    # a conditional is a fresh-free term; keep it division-free only if both are
    return R(z3.If(c.z, a.z, b.z), None, None)


# ---------------------------------------------------------------------------
# equalities with tolerance (numeric mode) / exact (symbolic mode)

class NumCheck:
    """result of evaluating a contract clause on floats"""

    def __init__(self, ok, resid=0.0, detail=''):
        self.ok = bool(ok)
        self.resid = resid
        self.detail = detail

    def __bool__(self):
        return self.ok

    def __repr__(self):
        return 'NumCheck(%s, resid=%g %s)' % (self.ok, self.resid, self.detail)


NUM_TOL = [1e-7]


def Eq(a, b, tol=None):
    """a == b; exact for symbolic values, |a-b| <= tol*(1+|a|+|b|) for floats"""
    if symbolic(a, b):
        a, b = lift(a), lift(b)
        return B(a.z == b.z, eq=(a, b), tol=tol)
    a = float(a)
    b = float(b)
    t = NUM_TOL[0] if tol is None else tol
    r = abs(a - b)
    return NumCheck(r <= t * (1 + abs(a) + abs(b)), r)


def eq_poly(l, r):
    """division-free z3 polynomial p with (l == r) <=> p == 0 (denominators non-zero)"""
    if isinstance(l.n, z3.ArithRef) and z3.is_app_of(l.n, z3.Z3_OP_ITE):
        return None
    if l.d is None and r.d is None:
        return l.n - r.n
    if l.d is None:
        return l.n * r.d - r.n
    if r.d is None:
        return l.n - r.n * l.d
    if z3.eq(l.d, r.d):
        return l.n - r.n
    return l.n * r.d - r.n * l.d


# ---------------------------------------------------------------------------
# symbols

PI_NAME = 'pi'


def real(name, numdef=None):
    c = ctx()
    c.order.append(name)
    if numdef is not None:
        c.numdefs[name] = numdef
    return R(z3.Real(name))


def integer(name):
    c = ctx()
    c.order.append(name)
    return I(z3.Int(name), ({name: 1}, 0))


def angle(name, base=(Fraction(1), 0), numdef=None):
    """an angle symbol; base = the coefficient (q, k) meaning q*pi^k with which cos/sin
    atoms are formed (e.g. (1/180, 1) for an angle in degrees, (1/2,0) for half-angles)"""
    c = ctx()
    c.order.append(name)
    if numdef is not None:
        c.numdefs[name] = numdef
    c.base[name] = (Fraction(base[0]), base[1])
    r = R(z3.Real(name), None, ({name: (Fraction(1), 0)}, ZERO))
    c.angsym[name] = r
    return r


def pi():
    c = ctx()
    if 'pi' not in c.memo:
        p = z3.Real(PI_NAME)
        c.memo['pi'] = R(p, None, ({}, (Fraction(1), 1)))
        c.order.append(PI_NAME)
        c.numdefs[PI_NAME] = lambda env: math.pi
        c.facts.append(p > z3.RealVal('3.14159'))
        c.facts.append(p < z3.RealVal('3.14160'))
    return c.memo['pi']


# ---------------------------------------------------------------------------
# trigonometry

def _atom(sym, coef):
    """(C, S) atoms for the angle coef*sym where coef == base[sym] exactly"""
    c = ctx()
    key = (sym, coef[0], coef[1])
    if key not in c.atoms:
        nm = 'C_%s' % sym if coef == c.base[sym] and True else 'C_%s' % sym
        tag = '' if coef == (Fraction(1), 0) else '@%s_pi%d' % (coef[0], coef[1])
        cn, sn = 'C_%s%s' % (sym, tag), 'S_%s%s' % (sym, tag)
        C, S = z3.Real(cn), z3.Real(sn)
        c.order.extend([cn, sn])
        q, k = coef

        def val(env, sym=sym, q=q, k=k):
            return env[sym] * float(q) * math.pi ** k
        c.numdefs[cn] = lambda env: math.cos(val(env))
        c.numdefs[sn] = lambda env: math.sin(val(env))
        c.atoms[key] = (R(C), R(S))
        c.hyps.append(C * C + S * S - 1)
        c.facts.append(C * C + S * S == 1)
        c.facts.append(z3.And(C >= -1, C <= 1, S >= -1, S <= 1))
    return c.atoms[key]


def _multiple(cs, k):
    """(cos, sin) of k*theta from (cos, sin) of theta"""
    C, S = cs
    if k == 0:
        return (1, 0)
    if k < 0:
        c, s = _multiple(cs, -k)
        return (c, -s)
    c, s = C, S
    for _ in range(k - 1):
        c, s = c * C - s * S, s * C + c * S
    return (c, s)


_SPECIAL = None


def _special():
    """exact cos/sin at multiples of pi/12 that need only sqrt2, sqrt3: use pi/6 and pi/4 grid"""
    global _SPECIAL
    return _SPECIAL


def surd(nm, val):
    c = ctx()
    key = 'surd' + nm
    if key not in c.memo:
        s = z3.Real(nm)
        c.order.append(nm)
        c.numdefs[nm] = lambda env: math.sqrt(val)
        c.memo[key] = R(s)
        c.hyps.append(s * s - val)
        c.facts.append(s * s == val)
        c.facts.append(s > 0)
    return c.memo[key]


def _const_cs(q):
    """(cos, sin) of q*pi for rational q on the pi/6, pi/4 grids"""
    q = q % 2
    table = {}
    half = Fraction(1, 2)
    r3h = lambda: surd('sqrt3', 3) * half
    r2h = lambda: surd('sqrt2', 2) * half
    base = {
        Fraction(0): lambda: (1, 0),
        Fraction(1, 6): lambda: (r3h(), half),
        Fraction(1, 4): lambda: (r2h(), r2h()),
        Fraction(1, 3): lambda: (half, r3h()),
        Fraction(1, 2): lambda: (0, 1),
    }
    # reduce to first quadrant
    quad = int(q // half)
    rem = q - quad * half
    if rem not in base:
        raise OutsideSubset('cos/sin of %s*pi not on the pi/6, pi/4 grid' % q)
    c, s = base[rem]()
    for _ in range(quad):
        c, s = -s, c
    return (c, s)


def cossin(x):
    """(cos x, sin x) for a symbolic angle"""
    c = ctx()
    if not isinstance(x, R):
        x = lift(x)
    if x.ang is None:
        # general real argument: cos / sin as uninterpreted functions (congruence + unit circle)
        key = ('ufcs', x.z.sexpr())
        if key not in c.memo:
            cf = c.memo.setdefault('cosf', z3.Function('cosf', z3.RealSort(), z3.RealSort()))
            sf = c.memo.setdefault('sinf', z3.Function('sinf', z3.RealSort(), z3.RealSort()))
            C_, S_ = R(cf(x.z)), R(sf(x.z))
            c.facts.append(C_.z * C_.z + S_.z * S_.z == 1)
            c.memo[key] = (C_, S_)
        return c.memo[key]
    syms, const = x.ang
    cs = (1, 0)
    for s in sorted(syms):
        coef = syms[s]
        if s not in c.base:
            c.base[s] = coef
        ratio = qp_div(coef, c.base[s])
        if ratio[1] != 0 or ratio[0].denominator != 1:
            raise OutsideSubset('angle %s used with coefficient %s not a multiple of its base %s'
                                % (s, coef, c.base[s]))
        part = _multiple(_atom(s, c.base[s]), int(ratio[0]))
        cs = (cs[0] * part[0] - cs[1] * part[1], cs[1] * part[0] + cs[0] * part[1])
    if const[0] != 0:
        if const[1] != 1:
            raise OutsideSubset('angle constant %s*pi^%d' % const)
        part = _const_cs(const[0])
        cs = (cs[0] * part[0] - cs[1] * part[1], cs[1] * part[0] + cs[0] * part[1])
    return cs


def cos(x):
    if isinstance(x, (R, I)):
        return cossin(x)[0]
    return math.cos(x)


def sin(x):
    if isinstance(x, (R, I)):
        return cossin(x)[1]
    return math.sin(x)


def eval_hint(c, h):
    """a hint is a value or a callable evaluated now, speculatively, re-using existing sqrt symbols only"""
    if not callable(h):
        return lift(h)
    saved = (c.speculative, c.lookup_only)
    c.speculative, c.lookup_only = True, True
    try:
        return lift(h())
    except (HintUnavailable, ZeroDivisionError):
        return None
    finally:
        c.speculative, c.lookup_only = saved


def probe_point(c):
    """a completed numeric environment satisfying the current path condition (cached), or None"""
    envs = c.probe_env
    if not envs:
        return None
    if isinstance(envs, dict):
        envs = [envs]
    key = (len(c.order), len(c.pc))
    cached = getattr(c, '_probe_cache', None)
    if cached is not None and cached[0] == key:
        return cached[1]
    found = None
    for env0 in envs:
        try:
            env = complete_env(c, env0)
            if all(numeval(f, env) for f in c.pc):
                found = env
                break
        except Exception:
            continue
    c._probe_cache = (key, found)
    return found


def probe_value(c, r):
    """numeric value of a symbolic real at the probe point, or None"""
    env = probe_point(c)
    if env is None:
        return None
    try:
        return float(numeval(lift(r).z, env))
    except Exception:
        return None


def _quick_differs(c, p):
    """cheap numeric pre-filter: True if polynomial p is clearly non-zero at a probe point that
    satisfies the current path condition (used only to skip hopeless proof hints)"""
    env = probe_point(c)
    if env is None:
        return False
    try:
        return abs(numeval(p, env)) > 1e-6
    except Exception:
        return False


def _sqrt_of_rational(q):
    """sqrt of a non-negative rational as (rational) * surd(squarefree part)"""
    q = Fraction(q)
    if q < 0:
        raise OutsideSubset('sqrt of a negative constant')
    n = q.numerator * q.denominator          # sqrt(p/q) = sqrt(p q) / q
    k, m = 1, 1
    f = 2
    while f * f <= n:
        e = 0
        while n % f == 0:
            n //= f
            e += 1
        m *= f ** (e // 2)
        if e % 2:
            k *= f
        f += 1
    k *= n
    coef = Fraction(m, q.denominator)
    if k == 1:
        return coef if coef.denominator != 1 else int(coef)
    return surd('sqrt%d' % k, k) * coef


def sqrt(x, nonneg_known=False):
    if isinstance(x, I):
        x = lift(x)
    if not isinstance(x, R):
        if _CTX[0] is not None and isinstance(x, (int, Fraction)) and not isinstance(x, bool):
            return _sqrt_of_rational(x)          # exact: rational times the surd of the square-free part
        return math.sqrt(x)
    cst = ang_const(x.ang)
    if cst is not None and (cst[1] == 0 or cst[0] == 0) and x.d is None and z3.is_rational_value(x.n):
        return _sqrt_of_rational(cst[0])
    c = ctx()
    key = ('sqrt', x.z.sexpr())
    if key in c.memo:
        return c.memo[key]
    # the same radicand written differently shares the symbol -- only after z3 has
    # confirmed that the two radicands are identical polynomials
    from . import cert as _cert
    for (a, r0) in c.memo.setdefault('sqrts', []):
        p = eq_poly(x, a)
        if p is None or _quick_differs(c, p):
            continue
        if _cert.check_identity(p, 2000) or \
                _cert.prove_eq(p, c.hyps, c.order, timeout=10, facts=c.facts + c.pc)['status'] == 'discharged':
            c.memo[key] = r0
            return r0
    # proof guidance: a contract may name candidate closed forms s; s is used only after the
    # certificate s*s == x (modulo the current hypotheses) and s >= 0 have been established
    if c.lookup_only:
        raise HintUnavailable()
    for s_ in c.sqrt_hints:
        s_ = eval_hint(c, s_)
        if s_ is None:
            continue
        p = eq_poly(s_ * s_, x)
        if p is None:
            continue
        if _quick_differs(c, p):
            continue
        r_ = _cert.prove_eq(p, c.hyps, c.order, timeout=20, facts=c.facts + c.pc)
        if r_['status'] != 'discharged':
            continue
        from . import signs as _signs
        if s_.d is not None and not _cert.nonzero_from_facts(s_.d, c.facts + c.pc):
            continue          # a hint is only usable where its denominators are known non-zero
        if _signs.prove_sign(c, c.facts, c.pc, c.hyps, s_, '>=', c.sign_hints, c.signfacts, cert_timeout=24):
            c.memo[key] = s_
            c.memo['sqrts'].append((x, s_))
            c.notes.append('sqrt resolved to a closed form named by the contract (certificate + sign checked)')
            return s_
    if not nonneg_known:
        c.oblige('sqrt_arg_nonneg', x >= 0)
    nm = c.fresh('sqrt')
    zv = x.z
    r = real(nm, numdef=lambda env: math.sqrt(max(0.0, numeval(zv, env))))
    c.facts.append(r.z >= 0)
    c.assume(Eq(r * r, x))
    c.memo[key] = r
    c.memo['sqrts'].append((x, r))
    return r


def _newangle(stem, numdef):
    c = ctx()
    nm = c.fresh(stem)
    th = angle(nm, numdef=numdef)
    C, S = _atom(nm, c.base[nm])
    return th, C, S


def angle_cs(name, C, S, base=(Fraction(1), 0), numdef=None, by_construction=False):
    """an angle symbol whose cos/sin atoms ARE the given expressions (no fresh atom symbols).
    The caller is responsible for C^2 + S^2 = 1 (an obligation is emitted)."""
    c = ctx()
    base = (Fraction(base[0]), base[1])
    C, S = lift(C), lift(S)
    if not by_construction:
        c.oblige('angle_cs_unit_circle(%s)' % name.split('!')[0], Eq(C * C + S * S, 1))
    if numdef is None:
        zc, zs = C.z, S.z
        q, k = base

        def numdef(env, zc=zc, zs=zs, q=q, k=k):
            return math.atan2(numeval(zs, env), numeval(zc, env)) / (float(q) * math.pi ** k)
    th = angle(name, base=base, numdef=numdef)
    c.atoms[(name, base[0], base[1])] = (C, S)
    c.facts.append(z3.And(C.z >= -1, C.z <= 1, S.z >= -1, S.z <= 1))
    return th


def acos_sin(x):
    """sin(arccos(x)) = sqrt(1 - x^2), with the domain obligation -1 <= x <= 1"""
    if not isinstance(x, (R, I)):
        return math.sqrt(max(0.0, 1 - x * x))
    c = ctx()
    x = lift(x)
    rad = (1 - x) * (1 + x)
    # -1 <= x <= 1  <=>  (1-x)(1+x) >= 0
    c.oblige('arccos_domain', rad >= 0)
    c.assume(conj(rad >= 0, x >= -1, x <= 1))          # cut
    return sqrt(rad, nonneg_known=True)


def arccos(x):
    if not isinstance(x, (R, I)):
        return math.acos(x)
    c = ctx()
    x = lift(x)
    key = ('arccos', x.z.sexpr())
    if key in c.memo:
        return c.memo[key]
    zv = x.z
    # theta = arccos(x): cos(theta) IS x, sin(theta) IS sqrt(1 - x^2) >= 0, 0 <= theta <= pi
    S = acos_sin(x)
    nm = c.fresh('acos')
    th = angle(nm, numdef=lambda env: math.acos(max(-1.0, min(1.0, numeval(zv, env)))))
    c.atoms[(nm, Fraction(1), 0)] = (x, S)
    c.facts.append(z3.And(th.z >= 0, th.z <= pi().z))
    c.facts.append(z3.Implies(z3.And(th.z > 0, th.z < pi().z), lift(S).z > 0))     # sin > 0 on (0, pi)
    c.facts.append(z3.And(z3.Implies(2 * th.z < pi().z, x.z > 0), z3.Implies(2 * th.z > pi().z, x.z < 0),
                          z3.Implies(x.z > 0, 2 * th.z < pi().z), z3.Implies(x.z < 0, 2 * th.z > pi().z)))
    c.facts.append(z3.And(z3.Implies(x.z == 1, th.z == 0), z3.Implies(th.z == 0, x.z == 1),
                          z3.Implies(x.z == -1, th.z == pi().z), z3.Implies(th.z == pi().z, x.z == -1)))
    c.memo[key] = th
    return th


def arcsin(x):
    if not isinstance(x, (R, I)):
        return math.asin(x)
    c = ctx()
    x = lift(x)
    key = ('arcsin', x.z.sexpr())
    if key in c.memo:
        return c.memo[key]
    c.oblige('arcsin_domain', conj(x >= -1, x <= 1))
    zv = x.z
    C = sqrt(1 - x * x)
    nm = c.fresh('asin')
    th = angle(nm, numdef=lambda env: math.asin(max(-1.0, min(1.0, numeval(zv, env)))))
    c.atoms[(nm, Fraction(1), 0)] = (C, x)
    c.facts.append(z3.And(2 * th.z >= -pi().z, 2 * th.z <= pi().z))
    c.facts.append(z3.And(z3.Implies(x.z >= 0, th.z >= 0), z3.Implies(x.z <= 0, th.z <= 0)))
    c.memo[key] = th
    return th


def arctan(t):
    if not isinstance(t, (R, I)):
        return math.atan(t)
    c = ctx()
    t = lift(t)
    key = ('arctan', t.z.sexpr())
    if key in c.memo:
        return c.memo[key]
    zv = t.z
    rho = sqrt(1 + t * t)
    c.facts.append(rho.z > 0)
    nm = c.fresh('atan')
    th = angle(nm, numdef=lambda env: math.atan(numeval(zv, env)))
    c.atoms[(nm, Fraction(1), 0)] = (1 / rho, t / rho)
    c.facts.append(z3.And(2 * th.z > -pi().z, 2 * th.z < pi().z))
    c.facts.append(z3.And(z3.Implies(t.z >= 0, th.z >= 0), z3.Implies(t.z <= 0, th.z <= 0),
                          z3.Implies(t.z == 0, th.z == 0), z3.Implies(t.z > 0, th.z > 0),
                          z3.Implies(t.z < 0, th.z < 0)))
    c.memo[key] = th
    return th


def arctan2(y, x):
    if not symbolic(y, x):
        return math.atan2(y, x)
    c = ctx()
    y, x = lift(y), lift(x)
    key = ('arctan2', y.z.sexpr(), x.z.sexpr())
    if key in c.memo:
        return c.memo[key]
    zy, zx = y.z, x.z
    # theta = arctan2(y, x): cos IS x/rho, sin IS y/rho with rho = sqrt(x^2+y^2) > 0
    rho = sqrt(x * x + y * y)
    c.oblige('arctan2_nonzero', lift(rho) > 0)        # (x, y) != (0, 0)
    c.facts.append(lift(rho).z > 0)
    nm = c.fresh('atan2')
    th = angle(nm, numdef=lambda env: math.atan2(numeval(zy, env), numeval(zx, env)))
    c.atoms[(nm, Fraction(1), 0)] = (x / rho, y / rho)
    p = pi().z
    c.facts.append(z3.And(th.z > -p, th.z <= p))
    c.facts.append(z3.And(z3.Implies(y.z > 0, z3.And(th.z > 0, th.z < p)),
                          z3.Implies(y.z < 0, z3.And(th.z < 0, th.z > -p)),
                          z3.Implies(z3.And(y.z == 0, x.z > 0), th.z == 0),
                          z3.Implies(z3.And(y.z == 0, x.z < 0), th.z == p)))
    c.memo[key] = th
    return th


def exp(x):
    if not isinstance(x, (R, I)):
        return math.exp(x)
    c = ctx()
    x = lift(x)
    f = c.memo.setdefault('expf', z3.Function('exp', z3.RealSort(), z3.RealSort()))
    r = R(f(x.z))
    c.facts.append(r.z > 0)
    return r


def degrees(x):
    if isinstance(x, (R, I)):
        return x * 180 / pi()
    return math.degrees(x)


def absval(x):
    if isinstance(x, (R, I)):
        return abs(x)
    return abs(x)


# ---------------------------------------------------------------------------
# numeric evaluation of z3 terms (engine validation, counterexample search)

def numeval(t, env):
    """evaluate a z3 arithmetic/boolean term on floats; env: symbol name -> float"""
    cache = {}

    def ev(e):
        k = e.get_id()
        if k in cache:
            return cache[k]
        v = _ev(e)
        cache[k] = v
        return v

    def _ev(e):
        if z3.is_rational_value(e):
            return e.numerator_as_long() / e.denominator_as_long()
        if z3.is_int_value(e):
            return e.as_long()
        if z3.is_algebraic_value(e):
            return float(e.approx(20).as_fraction())
        if z3.is_true(e):
            return True
        if z3.is_false(e):
            return False
        k = e.decl().kind()
        ch = e.children()
        if k == z3.Z3_OP_UNINTERPRETED:
            if not ch:
                return env[e.decl().name()]
            if e.decl().name() == 'exp':
                return math.exp(ev(ch[0]))
            if e.decl().name() == 'cosf':
                return math.cos(ev(ch[0]))
            if e.decl().name() == 'sinf':
                return math.sin(ev(ch[0]))
            if e.decl().name() in env:
                return env[e.decl().name()](*[ev(c_) for c_ in ch])
            raise KeyError('uninterpreted %s' % e.decl().name())
        if k == z3.Z3_OP_ADD:
            return sum(ev(c) for c in ch)
        if k == z3.Z3_OP_MUL:
            r = 1
            for c in ch:
                r = r * ev(c)
            return r
        if k == z3.Z3_OP_SUB:
            r = ev(ch[0])
            for c in ch[1:]:
                r = r - ev(c)
            return r
        if k == z3.Z3_OP_UMINUS:
            return -ev(ch[0])
        if k == z3.Z3_OP_DIV:
            return ev(ch[0]) / ev(ch[1])
        if k == z3.Z3_OP_IDIV:
            return ev(ch[0]) // ev(ch[1])
        if k == z3.Z3_OP_MOD:
            return ev(ch[0]) % abs(ev(ch[1]))
        if k == z3.Z3_OP_POWER:
            return ev(ch[0]) ** ev(ch[1])
        if k == z3.Z3_OP_TO_REAL:
            return ev(ch[0])
        if k == z3.Z3_OP_TO_INT:
            return math.floor(ev(ch[0]))
        if k == z3.Z3_OP_ITE:
            return ev(ch[1]) if ev(ch[0]) else ev(ch[2])
        if k == z3.Z3_OP_AND:
            return all(ev(c) for c in ch)
        if k == z3.Z3_OP_OR:
            return any(ev(c) for c in ch)
        if k == z3.Z3_OP_NOT:
            return not ev(ch[0])
        if k == z3.Z3_OP_IMPLIES:
            return (not ev(ch[0])) or ev(ch[1])
        if k == z3.Z3_OP_EQ:
            a, b = ev(ch[0]), ev(ch[1])
            if isinstance(a, bool) or isinstance(b, bool):
                return a == b
            return abs(a - b) <= 1e-9 * (1 + abs(a) + abs(b))
        if k == z3.Z3_OP_DISTINCT:
            a, b = ev(ch[0]), ev(ch[1])
            return abs(a - b) > 1e-9 * (1 + abs(a) + abs(b))
        if k == z3.Z3_OP_LE:
            return ev(ch[0]) <= ev(ch[1]) + 1e-12
        if k == z3.Z3_OP_LT:
            return ev(ch[0]) < ev(ch[1])
        if k == z3.Z3_OP_GE:
            return ev(ch[0]) >= ev(ch[1]) - 1e-12
        if k == z3.Z3_OP_GT:
            return ev(ch[0]) > ev(ch[1])
        raise KeyError('numeval: unsupported op %s' % e.decl().name())
    return ev(t)


def complete_env(c, env):
    """fill in the dependent symbols (atoms, sqrt, arccos ...) in creation order"""
    env = dict(env)
    env.update(c.ufnum)
    for nm in c.order:
        if nm not in env and nm in c.numdefs:
            env[nm] = c.numdefs[nm](env)
    return env
