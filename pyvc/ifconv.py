"""pyvc.ifconv -- mechanical if-conversion for pure assignment If-chains.

`if test: BODY else: ORELSE`, where BODY/ORELSE consist only of assignments to simple names,
`pass`, and nested convertible ifs, is rewritten so that a SYMBOLIC test does not fork the path:
both sides are executed on copies of the assigned variables and merged with ite(test, ., .).
A concrete test (Python bool) still runs only the taken side, exactly as written.
`a and b` / `a or b` / `not a` inside such tests are evaluated without forking.
Applied to sysabs / sysabs_unique (C05), where forking would give thousands of paths.
"""
import ast

from . import terms as T

UNDEF = object()


def cond(x):
    """a test value without forking: bool stays bool, symbolic stays symbolic"""
    if isinstance(x, T.B):
        z = T.z3.simplify(x.z)
        if T.z3.is_true(z):
            return True
        if T.z3.is_false(z):
            return False
        return x
    return bool(x)


def and_(*thunks):
    acc = []
    for th in thunks:
        v = cond(th())
        if v is False:
            return False
        if v is True:
            continue
        acc.append(v)
    if not acc:
        return True
    return T.And(*acc)


def or_(*thunks):
    acc = []
    for th in thunks:
        v = cond(th())
        if v is True:
            return True
        if v is False:
            continue
        acc.append(v)
    if not acc:
        return False
    return T.Or(*acc)


def not_(x):
    v = cond(x)
    if isinstance(v, bool):
        return not v
    return T.Not(v)


def merge(c, a, b):
    if a is UNDEF and b is UNDEF:
        return UNDEF
    if a is UNDEF or b is UNDEF:
        raise T.OutsideSubset('variable defined on one side of a symbolic branch only')
    if not T.symbolic(a, b) and type(a) is type(b) and a == b:
        return a
    return T.ite(c, a, b)


class _TestRewriter(ast.NodeTransformer):
    def visit_BoolOp(self, node):
        self.generic_visit(node)
        fn = '__and' if isinstance(node.op, ast.And) else '__or'
        return ast.Call(func=ast.Name(id=fn, ctx=ast.Load()),
                        args=[ast.Lambda(args=ast.arguments(posonlyargs=[], args=[], kwonlyargs=[], kw_defaults=[], defaults=[]),
                                         body=v) for v in node.values], keywords=[])

    def visit_UnaryOp(self, node):
        self.generic_visit(node)
        if isinstance(node.op, ast.Not):
            return ast.Call(func=ast.Name(id='__not', ctx=ast.Load()), args=[node.operand], keywords=[])
        return node


def _assigned(stmts):
    names = []
    for s in stmts:
        if isinstance(s, ast.Assign):
            for t in s.targets:
                if isinstance(t, ast.Name) and t.id not in names:
                    names.append(t.id)
        elif isinstance(s, ast.If):
            for n in _assigned(s.body) + _assigned(s.orelse):
                if n not in names:
                    names.append(n)
    return names


def _convertible(stmts):
    for s in stmts:
        if isinstance(s, ast.Pass):
            continue
        if isinstance(s, ast.Assign) and all(isinstance(t, ast.Name) for t in s.targets):
            continue
        if isinstance(s, ast.If) and _convertible(s.body) and _convertible(s.orelse):
            continue
        return False
    return True


class IfConvert(ast.NodeTransformer):
    def __init__(self):
        self.k = 0

    def _stmts(self, stmts):
        out = []
        for st in stmts:
            r = self.visit(st)
            out.extend(r if isinstance(r, list) else [r])
        return out

    def visit_If(self, node):
        if not (_convertible(node.body) and _convertible(node.orelse)):
            self.generic_visit(node)
            return node
        names = _assigned(node.body) + [n for n in _assigned(node.orelse) if n not in _assigned(node.body)]
        node.body = self._stmts(node.body)
        node.orelse = self._stmts(node.orelse)
        self.k += 1
        k = self.k
        cname = '__c%d' % k
        test = _TestRewriter().visit(node.test)

        def parse(src):
            return ast.parse(src).body
        pre = parse('%s = __cond(__t)' % cname)
        pre[0].value.args[0] = test
        save, capt, restore, mergeb = [], [], [], []
        for n in names:
            save += parse('try:\n    __o%d_%s = %s\nexcept NameError:\n    __o%d_%s = __UNDEF' % (k, n, n, k, n))
            capt += parse('try:\n    __n%d_%s = %s\nexcept NameError:\n    __n%d_%s = __UNDEF' % (k, n, n, k, n))
            restore += parse('if __o%d_%s is __UNDEF:\n    pass\nelse:\n    %s = __o%d_%s' % (k, n, n, k, n))
            mergeb += parse('try:\n    __e%d_%s = %s\nexcept NameError:\n    __e%d_%s = __UNDEF\n'
                            '__m%d_%s = __merge(%s, __n%d_%s, __e%d_%s if __ran_else%d else __o%d_%s)\n'
                            'if __m%d_%s is not __UNDEF:\n    %s = __m%d_%s'
                            % (k, n, n, k, n, k, n, cname, k, n, k, n, k, k, n, k, n, n, k, n))
        import copy
        sym = save + copy.deepcopy(node.body) + capt + restore + \
            parse('__ran_else%d = True' % k) + (copy.deepcopy(node.orelse) or [ast.Pass()]) + mergeb
        concrete = ast.If(test=ast.Compare(left=ast.Name(id=cname, ctx=ast.Load()), ops=[ast.Is()],
                                           comparators=[ast.Constant(value=True)]),
                          body=node.body,
                          orelse=[ast.If(test=ast.Compare(left=ast.Name(id=cname, ctx=ast.Load()), ops=[ast.Is()],
                                                          comparators=[ast.Constant(value=False)]),
                                         body=node.orelse or [ast.Pass()], orelse=sym)])
        return pre + [concrete]


def transform(node):
    node = IfConvert().visit(node)
    return ast.fix_missing_locations(node)


NAMESPACE = {'__cond': cond, '__and': and_, '__or': or_, '__not': not_, '__merge': merge, '__UNDEF': UNDEF}
