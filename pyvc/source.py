"""pyvc.source -- read the real xfab sources from $XFAB_SRC (default /repo) on every run.

Functions are extracted mechanically with `ast`; nothing is cached across runs.  What the
extraction drops: the docstring (kept out of the hash so that doc edits are benign), decorators,
type annotations (no run-time meaning) and the module-level imports (replaced by the model
namespace given by the caller).
"""
import ast
import copy
import hashlib
import os

XFAB_SRC = os.environ.get('XFAB_SRC', '/repo')


class Source:
    def __init__(self, root=None):
        self.root = root or os.environ.get('XFAB_SRC', '/repo')
        self._mods = {}

    def path(self, module):
        return os.path.join(self.root, 'xfab', module + '.py')

    def text(self, module):
        self.module(module)
        return self._mods[module][1]

    def module(self, module):
        if module not in self._mods:
            p = self.path(module)
            with open(p, encoding='utf-8') as f:
                txt = f.read()
            self._mods[module] = (ast.parse(txt, filename=p), txt)
        return self._mods[module][0]

    def functions(self, module):
        return {n.name: n for n in self.module(module).body if isinstance(n, ast.FunctionDef)}

    def classes(self, module):
        return {n.name: n for n in self.module(module).body if isinstance(n, ast.ClassDef)}

    def funcdef(self, module, name):
        """name may be 'func' or 'Class.method'"""
        if '.' in name:
            cls, meth = name.split('.')
            k = self.classes(module).get(cls)
            if k is None:
                raise KeyError('%s.%s not found' % (module, name))
            for n in k.body:
                if isinstance(n, ast.FunctionDef) and n.name == meth:
                    # property setters share the name: prefer the last definition unless decorated getter asked
                    last = n
            try:
                return last
            except NameError:
                raise KeyError('%s.%s not found' % (module, name))
        fs = self.functions(module)
        if name not in fs:
            raise KeyError('%s.%s not found' % (module, name))
        return fs[name]

    def methods(self, module, cls):
        return [n for n in self.classes(module)[cls].body if isinstance(n, ast.FunctionDef)]

    def sha(self, module, name):
        node = strip_doc(copy.deepcopy(self.funcdef(module, name)))
        return hashlib.sha256(ast.dump(node).encode()).hexdigest()[:16]

    def segment(self, module, name):
        return ast.get_source_segment(self.text(module), self.funcdef(module, name))

    def compile(self, module, name, namespace, transform=None, node=None):
        """compile the real function body in `namespace` and return the function object"""
        node = copy.deepcopy(node if node is not None else self.funcdef(module, name))
        node.decorator_list = []
        node = strip_annotations(node)
        if transform is not None:
            node = transform(node)
        mod = ast.Module(body=[node], type_ignores=[])
        ast.fix_missing_locations(mod)
        code = compile(mod, self.path(module), 'exec')
        # helpers compiled into the same namespace must see each other: exec in the caller's dict
        ns = namespace
        saved = ns.get(node.name, None)
        exec(code, ns)
        fn = ns[node.name]
        if saved is not None:
            ns[node.name] = saved        # keep the contract stub for calls by name; the compiled function is returned
        fn.__pyvc_ns__ = ns
        return fn


class _NoAnnotations(ast.NodeTransformer):
    """type hints have no run-time meaning: parameter / return annotations are removed and `x: T = v` becomes `x = v`"""

    def visit_FunctionDef(self, node):
        self.generic_visit(node)
        node.returns = None
        for a in node.args.posonlyargs + node.args.args + node.args.kwonlyargs:
            a.annotation = None
        if node.args.vararg:
            node.args.vararg.annotation = None
        if node.args.kwarg:
            node.args.kwarg.annotation = None
        return node

    def visit_AnnAssign(self, node):
        self.generic_visit(node)
        if node.value is None:
            return ast.copy_location(ast.Pass(), node)
        return ast.copy_location(ast.Assign(targets=[node.target], value=node.value), node)


def strip_annotations(node):
    return ast.fix_missing_locations(_NoAnnotations().visit(node))


def strip_doc(node):
    if (node.body and isinstance(node.body[0], ast.Expr)
            and isinstance(getattr(node.body[0], 'value', None), ast.Constant)
            and isinstance(node.body[0].value.value, str)):
        node.body = node.body[1:] or [ast.Pass()]
    return node


class AliasRename(ast.NodeTransformer):
    """normalise the numpy alias (n / np) for the structural comparison of tools and laue"""

    def __init__(self, aliases=('n', 'np')):
        self.aliases = aliases

    def visit_Name(self, node):
        if node.id in self.aliases:
            return ast.copy_location(ast.Name(id='__np__', ctx=node.ctx), node)
        return node


def normalised_dump(node):
    node = strip_doc(copy.deepcopy(node))
    node = AliasRename().visit(node)
    return ast.dump(node)
