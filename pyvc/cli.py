"""./check <ID> quick|thorough [--write-baseline] | ./check <ID> --replay <file>"""
import importlib
import json
import os
import sys


def main(argv):
    if len(argv) < 2:
        print(__doc__)
        return 3
    prop = argv[0]
    mod = importlib.import_module('checks.' + prop)
    if argv[1] == '--replay':
        return mod.replay(argv[2]) if hasattr(mod, 'replay') else generic_replay(argv[2])
    tier = argv[1]          # the tier named on the command line wins; VERIF_TIER is informational
    seed = int(os.environ.get('VERIF_SEED', '20261001'))
    wb = '--write-baseline' in argv
    return mod.main(tier, seed, write_baseline=wb)


def generic_replay(path):
    with open(path) as f:
        rec = json.load(f)
    print(json.dumps(rec, indent=1)[:4000])
    from pyvc import replay
    return replay.replay(rec)


if __name__ == '__main__':
    sys.exit(main(sys.argv[1:]))
