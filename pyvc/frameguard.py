"""pyvc.frameguard -- frame conditions on the real functions, checked natively on every call the checks make.

Every public function of the xfab modules is wrapped (in the checker's process only; nothing in /repo changes):
  * an ndarray argument of a call coming from outside xfab must be unchanged when the call returns
    (`modifies: nothing` is part of every contract unless it says otherwise);
  * an ndarray handed out as a result must not change afterwards behind the caller's back (a later call that
    recycles a work array or transposes a cached table in place breaks the earlier caller's value).
Calls made from inside xfab (depth > 0) are not checked: a function may modify its own temporaries through a helper.
A breach raises FrameViolation, which the units turn into a refuted obligation with the call as witness."""
import functools
import importlib
import threading
import types

import numpy as np

MODULES = ('tools', 'laue', 'detector', 'structure', 'symmetry', 'checks', 'sg')
_state = threading.local()
_installed = [False]
KEEP = 12


class FrameViolation(AssertionError):
    def __init__(self, what, function, detail):
        AssertionError.__init__(self, '%s: %s (%s)' % (function, what, detail))
        self.what, self.function, self.detail = what, function, detail

    def __reduce__(self):
        return (FrameViolation, (self.what, self.function, self.detail))


def _arrays(x, depth=0):
    if isinstance(x, np.ndarray):
        yield x
    elif isinstance(x, (list, tuple)) and depth < 2 and len(x) <= 16:
        for v in x:
            yield from _arrays(v, depth + 1)


def _wrap(modname, name, fn):
    qual = '%s.%s' % (modname, name)

    @functools.wraps(fn)
    def guarded(*a, **kw):
        d = getattr(_state, 'depth', 0)
        if d > 0:
            return fn(*a, **kw)
        _state.depth = 1
        try:
            snap = [(i, x, x.copy()) for i, arg in enumerate(list(a) + list(kw.values())) for x in _arrays(arg)]
            res = fn(*a, **kw)
        finally:
            _state.depth = 0
        for i, x, before in snap:
            if x.shape != before.shape or not np.array_equal(x, before, equal_nan=True):
                raise FrameViolation('argument modified in place', qual,
                                     'argument %d: %s -> %s' % (i, np.array2string(before, threshold=12), np.array2string(x, threshold=12)))
        held = getattr(_state, 'held', None)
        if held is None:
            held = _state.held = []
        for (q0, arr, copy) in held:
            if arr.shape != copy.shape or not np.array_equal(arr, copy, equal_nan=True):
                del held[:]
                raise FrameViolation('result of an earlier call changed after it was returned', q0,
                                     'changed during a later call of %s: %s -> %s' % (qual, np.array2string(copy, threshold=12),
                                                                                       np.array2string(arr, threshold=12)))
        for r in _arrays(res):
            # a result that is (a view of) one of the caller's own arrays belongs to the caller, who may change it
            if r.size <= 4096 and not any(np.shares_memory(r, x) for _, x, _ in snap):
                held.append((qual, r, r.copy()))
        del held[:-KEEP]
        return res
    guarded.__frameguard__ = fn
    return guarded


def install():
    if _installed[0]:
        return
    _installed[0] = True
    for m in MODULES:
        try:
            mod = importlib.import_module('xfab.' + m)
        except Exception:
            continue
        for name, obj in list(vars(mod).items()):
            if isinstance(obj, types.FunctionType) and obj.__module__ == mod.__name__ and not hasattr(obj, '__frameguard__'):
                setattr(mod, name, _wrap(m, name, obj))


def forget():
    """results the checker itself is about to modify are no longer watched"""
    _state.held = []
