"""pyvc.runner -- run the units (functions under contract, lemmas, table checks) of one
property, discharge obligations in a process pool, validate the engine against CPython,
search witnesses for undischarged obligations, write evidence, print verdict lines.

exit codes: 0 held (possibly with KNOWN-FINDING lines) | 1 violation | 2 undecided | 3 checker error
"""
import json
import multiprocessing as mp
import os
import random
import re
import sys
import time
import traceback

VERIF = os.path.dirname(os.path.dirname(os.path.abspath(__file__)))
OUT = VERIF
if os.environ.get('VERIF_NO_EVIDENCE'):
    # scratch runs (mutation self-test, seeded patches) must not overwrite evidence or replays
    OUT = os.path.join('/dev/shm', 'pyvc_scratch_%d' % os.getuid())
    os.makedirs(OUT, exist_ok=True)
XFAB_SRC = os.environ.get('XFAB_SRC', '/repo')
if XFAB_SRC not in sys.path:
    sys.path.insert(0, XFAB_SRC)
if VERIF not in sys.path:
    sys.path.insert(0, VERIF)

from . import terms as T           # noqa: E402
from . import engine as E          # noqa: E402
from . import discharge as D       # noqa: E402
from .source import Source         # noqa: E402


# ---------------------------------------------------------------------------
# units

class Unit:
    """something that produces named obligations"""
    kind = 'unit'

    def label(self):
        raise NotImplementedError

    def run(self, tier, seed):
        """-> dict(obligations=[...], functions=[...], validation=..., native=..., notes=[...])"""
        raise NotImplementedError


def _jsonable(x):
    import numpy as np
    from fractions import Fraction
    if isinstance(x, dict):
        return {str(k): _jsonable(v) for k, v in x.items()}
    if isinstance(x, (list, tuple)):
        return [_jsonable(v) for v in x]
    if isinstance(x, np.ndarray):
        return x.tolist()
    if isinstance(x, (np.floating,)):
        return float(x)
    if isinstance(x, (np.integer,)):
        return int(x)
    if isinstance(x, (np.bool_,)):
        return bool(x)
    if isinstance(x, Fraction):
        return float(x)
    if isinstance(x, (int, float, str, bool)) or x is None:
        return x
    return repr(x)


def sample_inputs(k, rng, tries=200):
    """a random admissible input of contract k (numeric requires hold)"""
    for _ in range(tries):
        vals = None
        if hasattr(k, 'special_samples') and rng.random() < 0.3:
            vals = k.special_samples(rng)        # inputs built at the boundaries the contract distinguishes
        if vals is None:
            vals = [pt.sample(rng) for _, pt in k.signature]
        if _admissible(k, vals):
            return vals
    return None


def _admissible(k, vals):
    try:
        if hasattr(k, 'numeric_ok') and not k.numeric_ok(*vals):
            return False          # admissible, but too ill-conditioned for a comparison in doubles (the symbolic contract covers it)
        return all(bool(T.And(cond)) if not isinstance(cond, bool) else cond
                   for _, cond in k.requires(*[_numview(pt, v) for (_, pt), v in zip(k.signature, vals)]))
    except (ZeroDivisionError, ValueError, OverflowError):
        return False


def neighbour_inputs(k, prev, rng):
    """an admissible input next to the previous one: every scalar real argument is kept, nudged by a relative
    1e-9..1e-5, or drawn afresh; everything else is kept.  Successive near-identical calls are what a stale cache or a
    tolerance-based shortcut needs in order to show."""
    import copy
    vals = copy.deepcopy(prev)
    changed = False
    for i, (nm, pt) in enumerate(k.signature):
        if type(pt) in (E.Cell, E.Vec) and isinstance(vals[i], list) and all(isinstance(x, float) for x in vals[i]):
            # a neighbouring cell / vector: a refinement step or the next grain of the same phase
            r = rng.random()
            if r < 0.3:
                continue
            d = rng.choice([1e-9, 1e-7, 2e-6, 8e-6, 3e-5])
            vals[i] = [x * (1 + rng.uniform(-1, 1) * d) for x in vals[i]]
            changed = True
            continue
        if isinstance(pt, (E.Real, E.Angle)) and isinstance(vals[i], float):
            r = rng.random()
            if r < 0.4:
                continue
            if r < 0.8:
                vals[i] = vals[i] * (1 + rng.choice([-1, 1]) * rng.choice([1e-9, 1e-7, 3e-6, 1e-5])) + rng.choice([0.0, 1e-9, -1e-9])
            else:
                vals[i] = pt.sample(rng)
            changed = True
    if changed and _admissible(k, vals):
        return vals
    return None


def _numview(pt, v):
    """numeric argument as the contract sees it"""
    return v


def env_of(k, vals):
    env = {}
    for (nm, pt), v in zip(k.signature, vals):
        pt.env(nm, v, env)
    return env


def native_args(k, vals):
    import numpy as np
    if type(k).actuals is not E.Contract.actuals:
        act = k.actuals(*vals)
        return [np.array(a, float) if isinstance(a, list) and a and isinstance(a[0], list) else a for a in act]
    return [pt.native(v) for (_, pt), v in zip(k.signature, vals)]


def vary_dtype(args, rng):
    """the same values in another representation a caller may legitimately use: integral floats as Python ints,
    all-integral float64 arrays as integer arrays, float64 arrays rounded to float32 only where that is exact.
    Values are unchanged, so every contract clause must still hold."""
    import numpy as np
    out = []
    for a in args:
        if isinstance(a, float) and a == int(a) and abs(a) < 2 ** 31 and rng.random() < 0.5:
            a = int(a)
        elif isinstance(a, list) and a and all(isinstance(x, float) and x == int(x) and abs(x) < 2 ** 31 for x in a) and rng.random() < 0.5:
            a = [int(x) for x in a]          # e.g. zero strain written as [0, 0, 0, 0, 0, 0]
        elif isinstance(a, list) and a and all(isinstance(x, float) for x in a) and rng.random() < 0.35:
            a = np.array(a, float)           # a sequence argument given as the caller's own float64 array
        elif isinstance(a, np.ndarray) and a.dtype == np.float64 and a.size and np.all(a == np.round(a)) and np.abs(a).max() < 2 ** 31 \
                and rng.random() < 0.5:
            a = a.astype(int)
        elif isinstance(a, np.ndarray) and a.dtype == np.float64 and a.size and np.all(a.astype(np.float32).astype(np.float64) == a) \
                and rng.random() < 0.3:
            a = a.astype(np.float32)
        out.append(a)
    return out


def _flatnum(x):
    import numpy as np
    from pyvc.npmodel import SArr
    if isinstance(x, SArr):
        return list(x.flat)
    if isinstance(x, np.ndarray):
        return x.flatten().tolist()
    if isinstance(x, (list, tuple)):
        out = []
        for v in x:
            out.extend(_flatnum(v))
        return out
    return [x]


def _evalsym(v, env):
    from fractions import Fraction
    if isinstance(v, (T.R, T.I, T.B)):
        return T.numeval(v.z, env)
    if isinstance(v, Fraction):
        return float(v)
    return v


class FuncUnit(Unit):
    kind = 'function'

    def __init__(self, module, name, checks_activated=False, nvalid=None, label=None):
        self.module, self.name, self.checks_activated = module, name, checks_activated
        self.nvalid = nvalid
        self._label = label

    def label(self):
        return self._label or '%s.%s' % (self.module, self.name)

    def contract(self):
        return E.REGISTRY[(self.module, self.name)]

    def native(self):
        import importlib
        mod = importlib.import_module('xfab.' + self.module)
        obj = mod
        for part in self.contract().name.split('.'):
            obj = getattr(obj, part)
        return obj

    def run(self, tier, seed):
        k = self.contract()
        src = Source()
        eng = E.Engine(src, checks_activated=self.checks_activated)
        out = {'unit': self.label(), 'functions': [{'module': self.module, 'name': k.name,
                                                     'sha': src.sha(self.module, k.name)}],
               'obligations': [], 'notes': [], 'validation': None, 'native': None}
        t0 = time.time()
        try:
            obls, paths = eng.obligations(k, transform=getattr(k, 'transform', None))
        except T.OutsideSubset as e:
            out['obligations'].append({'name': self.label() + '.symbolic_execution', 'status': 'unknown',
                                       'kind': 'engine', 'backend': '', 'seconds': 0,
                                       'detail': 'outside subset: %s' % e})
            # the function left the verifier's subset: its contract is still evaluated on the real function (bounded)
            if getattr(k, 'native_validation', True):
                n = 4 * (self.nvalid if self.nvalid is not None else (30 if tier == 'quick' else 300))
                try:
                    _val, out['native'], _samples = self.validate(k, [], random.Random(seed), n)
                except Exception as e2:        # noqa
                    out['notes'].append('runtime contract not evaluated: %r' % (e2,))
            return out
        out['gen_seconds'] = round(time.time() - t0, 3)
        out['paths'] = len(paths)
        notes = set()
        for p in paths:
            notes.update(p.ctx.notes)
        out['notes'] = sorted(notes)
        rng = random.Random(seed)
        # engine validation + runtime contract check on the real function
        n = self.nvalid if self.nvalid is not None else (30 if tier == 'quick' else 300)
        if not getattr(k, 'native_validation', True):
            n = 0
        out['validation'], out['native'], samples = self.validate(k, paths, rng, n)
        out['pending'] = [(ob, (lambda ob=ob: self.falsify(k, ob, samples))) for ob in obls]
        return out

    # -- numeric helpers -----------------------------------------------------
    def validate(self, k, paths, rng, n):
        """(a) symbolic summary vs native result; (b) contract clauses on the native result"""
        import numpy as np
        val = {'samples': 0, 'mismatches': [], 'paths_hit': set()}
        nat = {'samples': 0, 'failures': []}
        f = self.native()
        if hasattr(k, 'native_call'):
            f = None
        samples = []
        import xfab
        for _ in range(n):
            vals = None
            if samples and rng.random() < 0.25:
                vals = neighbour_inputs(k, samples[-1], rng)
            if vals is None:
                vals = sample_inputs(k, rng)
            if vals is None:
                break
            samples.append(vals)
            args = native_args(k, vals) if f is not None else None
            if args is not None:
                args = vary_dtype(args, rng)
            import copy as _copy
            before = _copy.deepcopy(args) if args is not None else None
            xfab.CHECKS.activated = self.checks_activated
            try:
                res = ('return', f(*args) if f is not None else k.native_call(*vals))
            except Exception as e:        # noqa
                res = ('raise', e)
            finally:
                xfab.CHECKS.activated = True
            # frame: array arguments come back unchanged
            if args is not None:
                for ai, (x0, x1) in enumerate(zip(before, args)):
                    if isinstance(x1, np.ndarray) and ai not in getattr(k, 'modifies', ()):
                        if x0.shape != x1.shape or not np.array_equal(x0, x1, equal_nan=True):
                            nat['failures'].append({'clause': 'frame.argument_%d_not_modified' % ai, 'inputs': _jsonable(vals),
                                                    'detail': 'argument %d was modified in place' % ai})
            # (b) runtime contract
            nat['samples'] += 1
            if res[0] == 'return':
                try:
                    for r_ in k.raises(*vals):
                        if bool(T.And(r_[2])):
                            nat['failures'].append({'clause': 'raises.' + r_[0], 'inputs': _jsonable(vals),
                                                    'detail': 'returned normally where the contract demands %s' % r_[1].__name__})
                    for nm, cond in k.ensures(*(list(vals) + [res[1]])):
                        for c in T.flatten_conj(cond):
                            if not bool(c):
                                nat['failures'].append({'clause': nm, 'inputs': _jsonable(vals),
                                                        'detail': repr(c), 'result': _jsonable(res[1])})
                except Exception as e:
                    nat['failures'].append({'clause': '<contract evaluation error>', 'inputs': _jsonable(vals),
                                            'detail': repr(e)})
            else:
                expected = False
                try:
                    for r_ in k.raises(*vals):
                        may = r_[3] if len(r_) > 3 else r_[2]
                        if isinstance(res[1], r_[1]) and bool(T.And(may)):
                            expected = True
                except Exception:
                    pass
                if not expected:
                    nat['failures'].append({'clause': 'no_exception', 'inputs': _jsonable(vals),
                                            'detail': repr(res[1])})
            # (a) engine validation
            env0 = env_of(k, vals)
            hit = None
            for p in paths:
                try:
                    env = T.complete_env(p.ctx, env0)
                    if all(T.numeval(c, env) for c in p.ctx.pc):
                        hit = (p, env)
                        break
                except (KeyError, ZeroDivisionError, ValueError, OverflowError, np.linalg.LinAlgError):
                    continue
            if hit is None:
                continue
            p, env = hit
            val['samples'] += 1
            val['paths_hit'].add(p.pathid())
            if p.outcome[0] != res[0]:
                # borderline comparisons may legitimately differ in floating point; record
                val['mismatches'].append({'inputs': _jsonable(vals), 'symbolic': p.outcome[0],
                                          'native': res[0], 'path': p.pathid()})
                continue
            if res[0] == 'return' and (res[1] is None or p.outcome[1] is None):
                if not (res[1] is None and p.outcome[1] is None):
                    val['mismatches'].append({'inputs': _jsonable(vals), 'detail': 'None vs value'})
            elif res[0] == 'return':
                try:
                    sv = [_evalsym(v, env) for v in _flatnum(p.outcome[1])]
                    nv = [float(v) for v in _flatnum(res[1])]
                    if len(sv) != len(nv):
                        val['mismatches'].append({'inputs': _jsonable(vals), 'detail': 'shape'})
                    else:
                        for a, b in zip(sv, nv):
                            if abs(float(a) - b) > 1e-7 * (1 + abs(b)):
                                val['mismatches'].append({'inputs': _jsonable(vals), 'symbolic': _jsonable(sv),
                                                          'native': _jsonable(nv), 'path': p.pathid()})
                                break
                except (KeyError, ZeroDivisionError, ValueError, TypeError) as e:
                    val['mismatches'].append({'inputs': _jsonable(vals), 'detail': 'evaluation error %r' % e})
        val['paths_hit'] = sorted(val['paths_hit'])
        return val, nat, samples

    def falsify(self, k, ob, samples):
        """find a sampled admissible input at which hypotheses hold and the goal is false; undischarged
        obligations get more samples than the routine validation (time-boxed)"""
        rng = random.Random(987654321)
        t_end = time.time() + 25
        pool = list(samples)
        i = 0
        while time.time() < t_end and i < len(pool) + 400:
            if i < len(pool):
                vals = pool[i]
            else:
                vals = sample_inputs(k, rng, tries=20)
            i += 1
            if vals is None:
                continue
            try:
                env = T.complete_env(ob.ctx, env_of(k, vals))
                # the goal first (cheap), the hypotheses only for candidates
                if ob.eq is not None:
                    l = T.numeval(ob.eq[0].z, env)
                    r = T.numeval(ob.eq[1].z, env)
                    bad = abs(l - r) > 1e-6 * (1 + abs(l) + abs(r))
                else:
                    bad = not T.numeval(ob.goal, env)
                if not bad:
                    continue
                if not all(T.numeval(c, env) for c in ob.pc):
                    continue
                if not all(T.numeval(c, env) for c in ob.facts):
                    continue
                m = {kk: vv for kk, vv in env.items() if isinstance(kk, str) and isinstance(vv, (int, float))}
                m['__inputs__'] = _jsonable(vals)
                return m
            except (KeyError, ZeroDivisionError, ValueError, OverflowError, TypeError):
                continue
        return None


class LemmaUnit(Unit):
    """a lemma over contracts: a small program over the stubs, no real code of its own.
    `fn(eng_ns)` receives the namespace of stubs and yields (name, condition) goals after
    having assumed whatever it needs through the stubs."""
    kind = 'lemma'

    def __init__(self, name, module, signature, requires, body, numeric=None):
        self.name, self.module, self.signature = name, module, signature
        self.requires, self.body, self.numeric = requires, body, numeric

    def label(self):
        return 'lemma.%s.%s' % (self.module, self.name)

    def run(self, tier, seed):
        src = Source()
        eng = E.Engine(src)
        out = {'unit': self.label(), 'functions': [], 'obligations': [], 'notes': [],
               'validation': None, 'native': None}
        ns = eng.namespace(self.module)
        work = [[]]
        while work:
            dec = work.pop()
            c = T.Ctx(dec)
            T.set_ctx(c)
            try:
                args = [pt.sym(nm) for nm, pt in self.signature]
                for nm, cond in self.requires(*args):
                    c.assume(cond)
                c.probe_env = eng.probe_env(self)
                try:
                    for nm, cond in self.body(_NS(ns), *args):
                        c.oblige('%s.%s' % (self.label(), nm), cond)
                        c.assume(cond)
                except T.PathEnd:
                    work.extend(c.pending)
                    continue
                except T.OutsideSubset as e:
                    out['obligations'].append({'name': self.label() + '.symbolic_execution', 'status': 'unknown',
                                               'kind': 'engine', 'backend': '', 'seconds': 0,
                                               'detail': 'outside subset: %s' % e})
                    return out
                work.extend(c.pending)
                pid = ''.join('T' if d else 'F' for d in c.taken) or '-'
                # vacuity guard: blatantly contradictory assumptions would make every goal provable
                try:
                    import z3 as _z3
                    sv = _z3.Solver()
                    sv.set('timeout', 2000)
                    sv.add(*[f for f in c.facts if _z3.is_bool(f)])
                    if sv.check() == _z3.unsat:
                        out['obligations'].append({'name': self.label() + '.vacuity.assumptions_consistent[%s]' % pid, 'status': 'error',
                                                   'kind': 'engine', 'backend': 'z3', 'seconds': 0,
                                                   'detail': 'the assumptions of the lemma are contradictory'})
                except Exception:
                    pass
                for ob in c.obligations:
                    if not ob.name.startswith(self.label()):
                        ob.name = '%s.%s' % (self.label(), ob.name)
                    ob.name = '%s[%s]' % (ob.name, pid)
                    out.setdefault('pending', []).append((ob, None))
                out['notes'] = sorted(set(out['notes']) | set(c.notes))
            finally:
                T.set_ctx(None)
        return out


class _NS:
    def __init__(self, d):
        self.__dict__.update(d)


class RuntimeContractUnit(Unit):
    """bounded stand-in for a function whose obligations the solvers do not discharge: the same
    sidecar contract is evaluated on the real function at random admissible inputs"""
    kind = 'bounded'

    def __init__(self, module, name, n_quick=300, n_thorough=5000):
        self.module, self.name, self.nq, self.nt = module, name, n_quick, n_thorough

    def label(self):
        return 'bounded.runtime_contract.%s.%s' % (self.module, self.name)

    def run(self, tier, seed):
        fu = FuncUnit(self.module, self.name)
        k = fu.contract()
        n = self.nq if tier == 'quick' else self.nt
        val, nat, samples = fu.validate(k, [], random.Random(seed), n)
        fails = [{'clause': f['clause'], 'inputs': f['inputs'], 'detail': f['detail']} for f in nat['failures'][:3]]
        return {'unit': self.label(), 'functions': [], 'obligations': [], 'notes': [], 'validation': None,
                'native': None,
                'bounded': {'name': 'runtime_contract.%s.%s' % (self.module, self.name),
                            'what': 'every clause of the sidecar contract of %s.%s evaluated on the real function '
                                    '(tolerance 1e-7 relative)' % (self.module, self.name),
                            'samples': nat['samples'], 'failures': fails}}


class BoundedUnit(Unit):
    """a bounded stand-in: native sampling of a statement on the real code.  Reported under
    bounded_standins with its bound; never counted as a discharged obligation.  A failing
    sample is a real failing input and is reported as a VIOLATION with its replay."""
    kind = 'bounded'

    def __init__(self, name, fn, n_quick, n_thorough, what):
        self.name, self.fn, self.nq, self.nt, self.what = name, fn, n_quick, n_thorough, what

    def label(self):
        return 'bounded.' + self.name

    def run(self, tier, seed):
        from .frameguard import FrameViolation
        n = self.nq if tier == 'quick' else self.nt
        rng = random.Random(seed)
        fails = []
        done = 0
        root = os.path.realpath(os.environ.get('XFAB_SRC', '/repo'))
        for i in range(n):
            try:
                r = self.fn(rng)
            except FrameViolation as e:
                r = {'frame_violation': e.what, 'function': e.function, 'detail': e.detail, 'sample_index': i, 'seed': seed}
            except Exception as e:
                # an exception raised by (or below) the code under test on an input the statement covers is a failing
                # sample; one raised by the checker's own code is a checker error
                frames = traceback.extract_tb(e.__traceback__)
                if not any(os.path.realpath(fr.filename).startswith(root + os.sep) for fr in frames):
                    raise
                r = {'raised': repr(e), 'sample_index': i, 'seed': seed,
                     'traceback': ''.join(traceback.format_list([fr for fr in frames if os.path.realpath(fr.filename).startswith(root + os.sep)][-3:]))}
            done += 1
            if r is not None:
                fails.append(_jsonable(r))
                if len(fails) >= 5000:
                    break
        return {'unit': self.label(), 'functions': [], 'obligations': [], 'notes': [], 'validation': None,
                'native': None, 'bounded': {'name': self.name, 'what': self.what, 'samples': done,
                                            'failures': fails}}


# ---------------------------------------------------------------------------
# property driver

def _run_unit(args):
    unit, tier, seed = args
    t0 = time.time()
    from .frameguard import FrameViolation
    try:
        r = unit.run(tier, seed)
    except FrameViolation as e:
        r = {'unit': unit.label(), 'functions': [], 'obligations': [
            {'name': 'frame.%s.%s' % (e.function, e.what.replace(' ', '_')), 'status': 'refuted', 'kind': 'ground', 'backend': 'native frame guard',
             'seconds': 0, 'detail': str(e), 'model': {'detail': e.detail}, 'path': '',
             'ground_witness': {'function': e.function, 'what': e.what, 'detail': e.detail, 'raised_in_unit': unit.label()}}],
             'notes': [], 'validation': None, 'native': None}
    except Exception as e:
        r = {'unit': unit.label(), 'functions': [], 'obligations': [
            {'name': unit.label() + '.checker', 'status': 'error', 'kind': 'engine', 'backend': '', 'seconds': 0,
             'detail': '%r\n%s' % (e, traceback.format_exc())}], 'notes': [], 'validation': None, 'native': None}
    r['wall'] = round(time.time() - t0, 3)
    return r


_PENDING = []      # (unit index, Obligation, falsifier) -- inherited by the forked workers


_RETRY_SCALE = [1]


def _discharge_index(i):
    ui, ob, fals = _PENDING[i]
    if os.environ.get('PYVC_TRACE'):
        print('  start %s' % ob.name, file=sys.stderr, flush=True)
        import faulthandler
        faulthandler.dump_traceback_later(int(os.environ.get('PYVC_FAULT_S', '150')), exit=False)
    r = D.discharge(ob, scale=_RETRY_SCALE[0])
    if os.environ.get('PYVC_TRACE'):
        import faulthandler
        faulthandler.cancel_dump_traceback_later()
    if os.environ.get('PYVC_TRACE'):
        print('  done  %s %s %.1fs' % (ob.name, r['status'], r.get('seconds', 0)), file=sys.stderr, flush=True)
    r['path'] = ob.path
    if r['status'] in ('unknown', 'refuted') and r.get('model') is None and fals is not None:
        try:
            m = fals()
        except Exception:
            m = None
        if m is not None:
            r['status'] = 'refuted'
            r['model'] = m
            r['detail'] = (r['detail'] + '; falsified numerically at a sampled admissible input').strip('; ')
    if r.get('model') is not None:
        r['model'] = _jsonable({kk: vv for kk, vv in r['model'].items() if isinstance(kk, str)})
        nat = getattr(ob, 'native_replay', None)
        if nat is not None and r['status'] == 'refuted':
            try:
                r['native_witness'] = _jsonable(nat(r['model']))
            except Exception as e:
                r['native_witness'] = None
                r['detail'] += '; native replay raised %r' % (e,)
    return ui, r


def load_known():
    p = os.path.join(VERIF, 'known_findings.json')
    if not os.path.exists(p):
        return []
    with open(p) as f:
        return json.load(f)


def load_baseline(prop):
    p = os.path.join(VERIF, 'baseline', prop + '.json')
    if not os.path.exists(p):
        return None
    with open(p) as f:
        return json.load(f)


def run_property(prop, units, tier, seed, level='proof', assumptions=(), trusted=(), bounded=None,
                 design_ref='', checker_cmd=None, write_baseline=False, extra_cov=None, procs=None):
    t0 = time.time()
    procs = procs or int(os.environ.get('PYVC_PROCS', '16'))
    from . import frameguard
    frameguard.install()
    only = os.environ.get('PYVC_ONLY')
    if only:
        # development aid: run the units whose label matches; such a run writes no evidence and no baseline
        units = [u for u in units if re.search(only, u.label())]
        os.environ['VERIF_NO_EVIDENCE'] = '1'
        write_baseline = False
    # phase A (this process): symbolic execution of every unit -> obligations as z3 objects
    results = [_run_unit((u, tier, seed + i)) for i, u in enumerate(units)]
    if os.environ.get('PYVC_VERBOSE'):
        for r in results:
            print('  gen %-60s %6.1fs %d obligations' % (r['unit'], r['wall'], len(r.get('pending', []))), flush=True)
    del _PENDING[:]
    for ui, r in enumerate(results):
        for ob, fals in r.pop('pending', []):
            _PENDING.append((ui, ob, fals))
    # phase B (forked workers inherit the obligations): one task per obligation
    if procs > 1 and len(_PENDING) > 1:
        from . import pool as _pool
        raw = _pool.run(len(_PENDING), _discharge_index, procs, int(os.environ.get('PYVC_TASK_TIMEOUT_S', '420')))
        done = []
        for i, rr in enumerate(raw):
            if isinstance(rr, dict) and 'crashed' in rr:
                ui, ob, _f = _PENDING[i]
                done.append((ui, {'name': ob.name, 'kind': ob.kind, 'status': 'unknown', 'backend': '', 'seconds': 0.0,
                                  'detail': 'solver worker failed: %s' % rr['crashed'], 'model': None, 'path': ob.path}))
            else:
                done.append(rr)
    else:
        done = [_discharge_index(i) for i in range(len(_PENDING))]
    # second chance: an obligation left undecided (solver time-out, e.g. on a loaded machine) is tried once more with
    # four times the budgets and half the workers; a verdict of the first pass is never revisited
    again = [i for i, (ui, r) in enumerate(done) if r.get('status') == 'unknown']
    if again and not os.environ.get('PYVC_NO_RETRY'):
        _RETRY_SCALE[0] = 4
        try:
            if procs > 1 and len(again) > 1:
                from . import pool as _pool
                idx = list(again)
                raw2 = _pool.run(len(idx), lambda j: _discharge_index(idx[j]), max(2, procs // 2),
                                 4 * int(os.environ.get('PYVC_TASK_TIMEOUT_S', '420')))
            else:
                raw2 = [_discharge_index(i) for i in again]
            for i, rr in zip(again, raw2):
                if isinstance(rr, tuple) and rr[1].get('status') in ('discharged', 'refuted'):
                    rr[1]['detail'] = (rr[1].get('detail', '') + '; decided on the second pass (4x budgets)').strip('; ')
                    done[i] = rr
        finally:
            _RETRY_SCALE[0] = 1
    for ui, r in done:
        results[ui]['obligations'].append(r)
        if os.environ.get('PYVC_VERBOSE') and r.get('seconds', 0) > 3:
            print('  slow %-80s %-10s %6.1fs %s' % (r['name'], r['status'], r['seconds'], r['backend']), flush=True)
    return report(prop, results, tier, seed, level, assumptions, trusted, bounded or [], t0,
                  checker_cmd, write_baseline, extra_cov or {})


def report(prop, results, tier, seed, level, assumptions, trusted, bounded, t0, checker_cmd, write_baseline,
           extra_cov):
    known = [k for k in load_known() if k.get('property') == prop]
    baseline = load_baseline(prop)
    obls = []
    for r in results:
        for o in r['obligations']:
            o['unit'] = r['unit']
            obls.append(o)
    n = len(obls)
    discharged = [o for o in obls if o['status'] == 'discharged']
    bad = [o for o in obls if o['status'] != 'discharged']
    lines = []
    exit_code = 0
    violations = 0
    known_seen = []
    os.makedirs(os.path.join(OUT, 'replays', prop), exist_ok=True)
    # engine validation mismatches are checker errors
    for r in results:
        v = r.get('validation')
        if v and v['mismatches']:
            lines.append('ENGINE-MISMATCH property=%s unit=%s first=%s' % (prop, r['unit'], json.dumps(v['mismatches'][0])[:400]))
            exit_code = max(exit_code, 3)
    # native runtime-contract failures: witnesses
    native_fail = {}
    for r in results:
        nat = r.get('native')
        if nat:
            for f in nat['failures']:
                native_fail.setdefault((r['unit'], f['clause']), f)
    handled_native = set()
    for o in bad:
        if o['status'] == 'error':
            lines.append('CHECKER-ERROR property=%s obligation=%s %s' % (prop, o['name'], o['detail'][:300]))
            exit_code = max(exit_code, 3)
            continue
        # witness from the runtime contract check of the same clause
        clause = None
        m = re.search(r'\.ensures\.([^\[]+)', o['name'])
        if m:
            clause = m.group(1)
        wit = o.get('native_witness')
        for (unit, cl), f in native_fail.items():
            if wit is not None:
                break
            if unit == o['unit'] and clause is not None and (cl == clause or cl.split('[')[0] == clause.split('[')[0]):
                wit = f
                handled_native.add((unit, cl))
                break
        if wit is None and o.get('kind') == 'ground' and o['status'] == 'refuted':
            # ground obligations are evaluated on the real tables: the falsifying instance is the witness
            wit = {'clause': o['name'], 'detail': o.get('detail'), 'inputs': o.get('ground_witness')}
        kf = match_known(known, o['name'])
        if kf is not None:
            known_seen.append(kf)
            lines.append('KNOWN-FINDING: property=%s %s -- %s' % (prop, o['name'], kf.get('what', '')))
            continue
        replay = os.path.join('replays', prop, _safe(o['name']) + '.json')
        in_base = baseline is not None and o['name'] in baseline.get('discharged', [])
        rec = {'property': prop, 'obligation': o['name'], 'verdict': o['status'], 'backend': o['backend'],
               'solver_output': o['detail'], 'model': _jsonable(o.get('model')),
               'native_witness': wit, 'unit': o['unit'],
               'rerun': './check %s --replay %s' % (prop, replay)}
        if o['status'] == 'refuted' or wit is not None:
            with open(os.path.join(OUT, replay), 'w') as f:
                json.dump(rec, f, indent=1)
            violations += 1
            exit_code = max(exit_code, 1)
            if wit is not None:
                lines.append('VIOLATION property=%s replay=%s' % (prop, replay))
            else:
                lines.append('VIOLATION property=%s replay=%s no-failing-input-found' % (prop, replay))
        else:
            with open(os.path.join(OUT, replay), 'w') as f:
                json.dump(rec, f, indent=1)
            if in_base:
                # passed on the unchanged tree, not discharged now, no counter-model: undecided
                lines.append('UNDECIDED property=%s obligation=%s reason=%s (was discharged in baseline) replay=%s'
                             % (prop, o['name'], o['detail'][:200].replace('\n', ' '), replay))
            else:
                lines.append('UNDECIDED property=%s obligation=%s reason=%s' % (prop, o['name'], o['detail'][:200].replace('\n', ' ')))
            exit_code = max(exit_code, 2)
    # runtime-contract failures that no obligation accounts for (should not happen: report as violation)
    for (unit, cl), f in native_fail.items():
        if (unit, cl) in handled_native:
            continue
        name = '%s.runtime_contract.%s' % (unit, cl)
        kf = match_known(known, name)
        if kf is not None:
            known_seen.append(kf)
            lines.append('KNOWN-FINDING: property=%s %s -- %s' % (prop, name, kf.get('what', '')))
            continue
        replay = os.path.join('replays', prop, _safe(name) + '.json')
        with open(os.path.join(OUT, replay), 'w') as fh:
            json.dump({'property': prop, 'obligation': name, 'verdict': 'runtime contract failed on the real function',
                       'native_witness': f}, fh, indent=1)
        lines.append('VIOLATION property=%s replay=%s' % (prop, replay))
        violations += 1
        exit_code = max(exit_code, 1)
    bounded = list(bounded)
    for r in results:
        for sub in r.get('bounded_multi', []) or []:
            name = r['unit'] + '.' + sub['name']
            kf = match_known(known, name, sub.get('failure'))
            if kf is not None:
                known_seen.append(kf)
                lines.append('KNOWN-FINDING: property=%s %s -- %s' % (prop, name, kf.get('what', '')))
                continue
            replay = os.path.join('replays', prop, _safe(name) + '.json')
            with open(os.path.join(OUT, replay), 'w') as fh:
                json.dump({'property': prop, 'obligation': name, 'verdict': 'bounded stand-in failed on the real code',
                           'native_witness': _jsonable(sub.get('failure'))}, fh, indent=1)
            lines.append('VIOLATION property=%s replay=%s' % (prop, replay))
            violations += 1
            exit_code = max(exit_code, 1)
    for r in results:
        b = r.get('bounded')
        if not b:
            continue
        bounded.append({'name': b['name'], 'what': b['what'], 'bound': '%d random samples (seed %d)' % (b['samples'], seed),
                        'failures': len(b['failures'])})
        b = dict(b)
        reported_known, reported_new = set(), 0
        for fl in b['failures']:
            name = r['unit']
            kf = match_known(known, name, fl if isinstance(fl, dict) else None)
            if kf is not None:
                if kf.get('id') not in reported_known:
                    reported_known.add(kf.get('id'))
                    known_seen.append(kf)
                    lines.append('KNOWN-FINDING: property=%s %s -- %s' % (prop, name, kf.get('what', '')))
                continue
            reported_new += 1
            if reported_new > 1:
                continue          # one VIOLATION line (with replay) per stand-in is enough
            replay = os.path.join('replays', prop, _safe(name) + '.json')
            with open(os.path.join(OUT, replay), 'w') as fh:
                json.dump({'property': prop, 'obligation': name, 'verdict': 'bounded stand-in failed on the real code',
                           'native_witness': fl, 'what': b['what']}, fh, indent=1)
            lines.append('VIOLATION property=%s replay=%s' % (prop, replay))
            violations += 1
            exit_code = max(exit_code, 1)
    nb = sum(b.get('samples', 0) if isinstance(b, dict) else 0 for b in
             [r.get('bounded') or {} for r in results])
    if n == 0 and (level == 'proof' or nb == 0):
        lines.append('CHECKER-ERROR property=%s no obligations generated' % prop)
        exit_code = max(exit_code, 3)
    if baseline is not None and not write_baseline:
        missing = [b for b in baseline.get('discharged', []) if b not in {o['name'] for o in obls}]
        if missing:
            lines.append('NOTE property=%s %d baseline obligations were not generated on this tree (e.g. %s)'
                         % (prop, len(missing), missing[0]))
    backends = {}
    solver_s = 0.0
    for o in obls:
        backends[o['backend'] or 'none'] = backends.get(o['backend'] or 'none', 0) + 1
        solver_s += o.get('seconds', 0)
    funcs = []
    for r in results:
        funcs.extend(r.get('functions', []))
    notes = sorted({x for r in results for x in r.get('notes', [])})
    samples = [{'obligation': o['name'], 'status': o['status'], 'backend': o['backend'], 'seconds': o.get('seconds'),
                'detail': o.get('detail', '')[:160]} for o in (bad[:3] + discharged[:5])]
    for r in results:
        if r.get('bounded'):
            samples.append({'bounded_standin': r['bounded']['name'], 'samples': r['bounded']['samples'],
                            'example': r['bounded'].get('example')})
    nvalid = sum((r['validation'] or {}).get('samples', 0) for r in results)
    nnative = sum((r['native'] or {}).get('samples', 0) for r in results)
    ev = {
        'property_id': prop, 'tier': tier, 'seed': seed, 'level': level,
        'coverage': dict({
            'obligations': n, 'discharged': len(discharged),
            'checker_cmd': checker_cmd or ('./check %s %s' % (prop, tier)),
            'trusted_base': list(trusted),
            'samples': samples,
            'functions_under_contract': funcs,
            'units': [{'unit': r['unit'], 'obligations': len(r['obligations']), 'paths': r.get('paths'),
                       'wall_s': r.get('wall')} for r in results],
            'backends': backends, 'solver_seconds': round(solver_s, 2),
            'engine_validation_samples': nvalid, 'runtime_contract_samples': nnative,
            'bounded_standins': bounded,
            'known_findings_seen': [k.get('id', k.get('obligation')) for k in known_seen],
            'callee_contracts_and_models_used': notes,
            'evaluations': max(1, n + nb), 'distinct_nontrivial': max(2, len({o['name'] for o in obls}) + nb),
            'rule': 'one evaluation = one named proof obligation generated from the current source, or one native '
                    'sample of a bounded stand-in (inputs are generated distinct; see bounded_standins for the bounds)',
        }, **extra_cov),
        'assumptions': list(assumptions),
        'wall_s': round(time.time() - t0, 2),
        'violations': violations,
    }
    os.makedirs(os.path.join(OUT, 'evidence'), exist_ok=True)
    with open(os.path.join(OUT, 'evidence', prop + '.json'), 'w') as f:
        json.dump(ev, f, indent=1)
    if write_baseline:
        os.makedirs(os.path.join(VERIF, 'baseline'), exist_ok=True)
        with open(os.path.join(VERIF, 'baseline', prop + '.json'), 'w') as f:
            json.dump({'discharged': sorted(o['name'] for o in discharged)}, f, indent=0)
    if violations > 0:
        exit_code = 1          # a reported violation dominates undecided obligations and engine notes
    for ln in lines:
        print(ln)
    print('SUMMARY property=%s tier=%s obligations=%d discharged=%d violations=%d exit=%d wall=%.1fs'
          % (prop, tier, n, len(discharged), violations, exit_code, time.time() - t0))
    return exit_code


def match_known(known, name, failure=None):
    for k in known:
        if k.get('status') != 'open':
            continue
        pat = k.get('obligation')
        if pat and re.search(pat, name):
            cond = k.get('only_if')
            if cond and failure is not None:
                try:
                    if not eval(cond, {'__builtins__': {'abs': abs, 'min': min, 'max': max, 'len': len}}, dict(failure)):
                        continue
                except Exception:
                    continue
            return k
    return None


def _safe(s):
    return re.sub(r'[^A-Za-z0-9_.\-\[\],=@]', '_', s)[:180]
