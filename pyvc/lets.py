"""pyvc.lets -- mechanical let-abstraction of large intermediate values.

An AST transformer rewrites every simple assignment `name = expr` of the extracted function to
`name = __let('name', expr)`.  At run time `__let` replaces a *large* symbolic real by a fresh
symbol s together with the defining hypothesis s == expr (fact and generator of the ideal).
This changes nothing semantically (s is just a name for the value) and keeps the polynomials
that the certificate search has to handle small; the triangular reduction unfolds the
definitions again (newest first) where a proof needs them.
"""
import ast

import z3

from . import terms as T
from .npmodel import SArr

THRESHOLD = 24


class LetTransform(ast.NodeTransformer):
    def visit_Assign(self, node):
        self.generic_visit(node)
        if len(node.targets) == 1 and isinstance(node.targets[0], ast.Name):
            nm = node.targets[0].id
            node.value = ast.Call(func=ast.Name(id='__let', ctx=ast.Load()),
                                  args=[ast.Constant(value=nm), node.value], keywords=[])
        return node


def transform(node):
    return ast.fix_missing_locations(LetTransform().visit(node))


def termsize(t, limit=THRESHOLD + 1):
    seen = set()
    stack = [t]
    n = 0
    while stack:
        e = stack.pop()
        i = e.get_id()
        if i in seen:
            continue
        seen.add(i)
        n += 1
        if n > limit:
            return n
        stack.extend(e.children())
    return n


def let(name, v, force=False):
    if isinstance(v, T.R):
        if v.ang is not None:
            return v
        size = termsize(v.n) + (termsize(v.d) if v.d is not None else 0)
        if size <= (1 if force else THRESHOLD):
            return v
        c = T.ctx()
        speculative = c.speculative
        # the same value computed twice (e.g. once by the code and once by the specification) shares its name:
        # z3 must confirm that the two are identical rational functions
        from . import cert as _cert
        table = c.memo.setdefault('lets', [])
        val = T.probe_value(c, v)
        for (v0, s0, val0) in table:
            if val is not None and val0 is not None and abs(val - val0) > 1e-9 * (1 + abs(val)):
                continue
            if val is None or val0 is None:
                continue          # without a numeric probe nothing is shared (sharing is only an optimisation)
            p = T.eq_poly(v, v0)
            if p is not None and _cert.check_identity(p, 3000):
                if v0 is not v:
                    c.memo.setdefault('letalias', {}).setdefault(s0.z.get_id(), []).append(v)
                return s0
        if speculative:
            return v          # proof hints never introduce names, they only re-use existing ones
        nm = c.fresh(name)
        zv = v.z
        s = T.real(nm, numdef=lambda env: T.numeval(zv, env))
        c.assume(T.Eq(s, v))
        table.append((v, s, val))
        c.memo.setdefault('letdefs', {})[s.z.get_id()] = v
        return s
    if isinstance(v, SArr):
        changed = False
        flat = []
        for i, x in enumerate(v.flat):
            y = let('%s_%d' % (name, i), x)
            changed = changed or (y is not x)
            flat.append(y)
        if changed:
            v.flat[:] = flat        # in place: keeps aliasing semantics of numpy views out of the picture
        return v
    return v
