"""pyvc.npmodel -- the assumed contracts of numpy/math as executable models over symbolic values.

`SArr` is an array of statically known shape whose entries are exact constants
(int/Fraction) or symbolic values.  Only the operations xfab uses are modelled; anything
else raises OutsideSubset (reported as undecided, never as a violation).
Each model is validated against the real numpy by engine validation.
"""
import itertools
import math
from fractions import Fraction

from . import terms as T
from .terms import R, I, B, OutsideSubset, lift, ctx, is_num


def _shape_of(x):
    if isinstance(x, SArr):
        return x.shape
    if isinstance(x, (list, tuple)):
        if len(x) == 0:
            return (0,)
        s0 = _shape_of(x[0])
        for y in x[1:]:
            if _shape_of(y) != s0:
                raise OutsideSubset('ragged array')
        return (len(x),) + s0
    return ()


def _flatten(x):
    if isinstance(x, SArr):
        return list(x.flat)
    if isinstance(x, (list, tuple)):
        out = []
        for y in x:
            out.extend(_flatten(y))
        return out
    return [_norm(x)]


def _norm(v):
    import numpy as _np
    if isinstance(v, (R, I, B, bool, str)) or v is None:
        return v
    if isinstance(v, _np.generic):
        v = v.item()
    if isinstance(v, int):
        return v
    if isinstance(v, float):
        q = T.to_frac(v)
        return int(q) if q.denominator == 1 else q
    if isinstance(v, Fraction):
        return int(v) if v.denominator == 1 else v
    return v


class SArr:
    __array_priority__ = 2000

    def __init__(self, shape, flat):
        self.shape = tuple(shape)
        self.flat = list(flat)
        n = 1
        for s in self.shape:
            n *= s
        assert n == len(self.flat), (shape, len(self.flat))

    def flat_items(self):
        return self.flat

    @property
    def ndim(self):
        return len(self.shape)

    def __len__(self):
        return self.shape[0]

    def copy(self):
        return SArr(self.shape, self.flat)

    def tolist(self):
        def rec(off, shp):
            if not shp:
                return self.flat[off]
            step = 1
            for s in shp[1:]:
                step *= s
            return [rec(off + i * step, shp[1:]) for i in range(shp[0])]
        return rec(0, self.shape)

    def __iter__(self):
        for i in range(self.shape[0]):
            yield self[i]

    # indexing ------------------------------------------------------------
    def _indices(self, key):
        if not isinstance(key, tuple):
            key = (key,)
        if len(key) > len(self.shape):
            raise IndexError('too many indices')
        key = key + (slice(None),) * (len(self.shape) - len(key))
        ranges, outshape = [], []
        for k, n in zip(key, self.shape):
            if isinstance(k, slice):
                r = list(range(*k.indices(n)))
                ranges.append(r)
                outshape.append(len(r))
            else:
                if isinstance(k, (R, I)):
                    raise OutsideSubset('symbolic index')
                if isinstance(k, Fraction):
                    if k.denominator != 1:
                        raise IndexError('non-integer index')
                    k = int(k)
                k = int(k)
                if k < -n or k >= n:
                    raise IndexError('index %d out of bounds for axis of size %d' % (k, n))
                ranges.append([k % n])
        strides, st = [], 1
        for n in reversed(self.shape):
            strides.insert(0, st)
            st *= n
        offs = [sum(i * s for i, s in zip(idx, strides)) for idx in itertools.product(*ranges)]
        return offs, tuple(outshape)

    def __getitem__(self, key):
        if isinstance(key, SArr):       # fancy indexing with a concrete int array on axis 0
            rows = [self[int(k)] for k in key.flat]
            return array(rows)
        if isinstance(key, list):
            return array([self[int(k)] for k in key])
        offs, shp = self._indices(key)
        if shp == ():
            return self.flat[offs[0]]
        return SArr(shp, [self.flat[o] for o in offs])

    def __setitem__(self, key, val):
        offs, shp = self._indices(key)
        if shp == ():
            self.flat[offs[0]] = _norm(val)
            return
        vs = _flatten(val)
        if len(vs) == 1:
            vs = vs * len(offs)
        if len(vs) != len(offs):
            # broadcasting of the trailing shape
            vshape = _shape_of(val)
            if vshape and len(offs) % len(vs) == 0 and tuple(shp[-len(vshape):]) == tuple(vshape):
                vs = vs * (len(offs) // len(vs))
            else:
                raise ValueError('cannot assign shape %s to %s' % (_shape_of(val), shp))
        for o, v in zip(offs, vs):
            self.flat[o] = v

    # elementwise ------------------------------------------------------------
    def _ew(self, o, f):
        if isinstance(o, (list, tuple)):
            o = array(o)
        if isinstance(o, SArr):
            a, b = broadcast(self, o)
            return SArr(a.shape, [_norm(f(x, y)) for x, y in zip(a.flat, b.flat)])
        return SArr(self.shape, [_norm(f(x, o)) for x in self.flat])

    def __add__(self, o):
        return self._ew(o, lambda x, y: x + y)

    def __radd__(self, o):
        return self._ew(o, lambda x, y: y + x)

    def __sub__(self, o):
        return self._ew(o, lambda x, y: x - y)

    def __rsub__(self, o):
        return self._ew(o, lambda x, y: y - x)

    def __mul__(self, o):
        return self._ew(o, lambda x, y: x * y)

    def __rmul__(self, o):
        return self._ew(o, lambda x, y: y * x)

    def __truediv__(self, o):
        return self._ew(o, lambda x, y: _div(x, y))

    def __rtruediv__(self, o):
        return self._ew(o, lambda x, y: _div(y, x))

    def _inplace(self, r):
        if r.shape != self.shape:
            raise ValueError('non-broadcastable output operand')
        self.flat[:] = r.flat
        return self

    def __iadd__(self, o):
        return self._inplace(self + o)

    def __isub__(self, o):
        return self._inplace(self - o)

    def __imul__(self, o):
        return self._inplace(self * o)

    def __itruediv__(self, o):
        return self._inplace(self / o)

    def __pow__(self, e):
        return SArr(self.shape, [_norm(x ** e) for x in self.flat])

    def __mod__(self, o):
        return self._ew(o, lambda x, y: mod(x, y))

    def __neg__(self):
        return SArr(self.shape, [-x for x in self.flat])

    def __pos__(self):
        return self

    def __abs__(self):
        return SArr(self.shape, [abs(x) for x in self.flat])

    def __eq__(self, o):
        return self._ew(o, lambda x, y: x == y)

    def __ne__(self, o):
        return self._ew(o, lambda x, y: x != y)

    def __lt__(self, o):
        return self._ew(o, lambda x, y: x < y)

    def __le__(self, o):
        return self._ew(o, lambda x, y: x <= y)

    def __gt__(self, o):
        return self._ew(o, lambda x, y: x > y)

    def __ge__(self, o):
        return self._ew(o, lambda x, y: x >= y)

    __hash__ = None

    def __bool__(self):
        if len(self.flat) == 1:
            return bool(self.flat[0])
        raise ValueError('truth value of an array with more than one element is ambiguous')

    # methods ------------------------------------------------------------------
    @property
    def T(self):
        return transpose(self)

    def transpose(self):
        return transpose(self)

    def dot(self, o):
        return dot(self, o)

    def __matmul__(self, o):
        return dot(self, o)

    def __rmatmul__(self, o):
        return dot(o, self)

    def sum(self, axis=None):
        return sum_(self, axis)

    dtype = 'float64'          # values only: the model carries no dtypes

    def astype(self, t, **kw):
        return self if kw.get('copy') is False else SArr(self.shape, list(self.flat))

    def clip(self, lo, hi):
        return clip(self, lo, hi)

    def __repr__(self):
        return 'SArr(%s, %s)' % (self.shape, self.flat)


def _div(x, y):
    if isinstance(x, (R, I)) or isinstance(y, (R, I)):
        if not isinstance(x, (R, I)):
            x = lift(x)
        return x / y
    y = T.to_frac(y)
    if y == 0:
        raise ZeroDivisionError('division by zero')
    return _norm(T.to_frac(x) / y)


def broadcast(a, b):
    if a.shape == b.shape:
        return a, b
    nd = max(a.ndim, b.ndim)
    sa = (1,) * (nd - a.ndim) + a.shape
    sb = (1,) * (nd - b.ndim) + b.shape
    out = []
    for x, y in zip(sa, sb):
        if x == y or y == 1:
            out.append(x)
        elif x == 1:
            out.append(y)
        else:
            raise ValueError('operands could not be broadcast together %s %s' % (a.shape, b.shape))

    def expand(arr, s):
        flat = []
        for idx in itertools.product(*[range(n) for n in out]):
            src = tuple(0 if s[d] == 1 else idx[d] for d in range(nd))
            off, st = 0, 1
            for d in reversed(range(nd)):
                off += src[d] * st
                st *= s[d]
            flat.append(arr.flat[off])
        return SArr(out, flat)
    return expand(a, sa), expand(b, sb)


# constructors -----------------------------------------------------------------

def array(x, dtype=None):
    if isinstance(x, SArr):
        return x.copy()
    if isinstance(x, (list, tuple)):
        return SArr(_shape_of(x), _flatten(x))
    import numpy as _np
    if isinstance(x, _np.ndarray):
        return SArr(x.shape, [_norm(v) for v in x.flatten().tolist()])
    return _norm(x)


def asarray(x, dtype=None):
    if isinstance(x, SArr):
        return x          # numpy returns the same object when no conversion is needed
    return array(x)


def ascontiguousarray(x):
    return array(x)


def zeros(shape, dtype=None):
    if isinstance(shape, int):
        shape = (shape,)
    n = 1
    for s in shape:
        n *= s
    return SArr(shape, [0] * n)


def empty(shape, dtype=None):
    return zeros(shape)


def eye(n, m=None):
    m = n if m is None else m
    return SArr((n, m), [1 if i == j else 0 for i in range(n) for j in range(m)])


def arange(a, b=None):
    if b is None:
        a, b = 0, a
    return SArr((max(0, b - a),), list(range(a, b)))


def transpose(x):
    x = asarray(x)
    if x.ndim == 1:
        return x
    if x.ndim != 2:
        raise OutsideSubset('transpose ndim %d' % x.ndim)
    r, c = x.shape
    return SArr((c, r), [x.flat[i * c + j] for j in range(c) for i in range(r)])


def _sumlist(xs):
    acc = 0
    for v in xs:
        acc = acc + v
    return _norm(acc)


def dot(a, b):
    r = _dot(a, b)
    if T._CTX[0] is not None and getattr(T._CTX[0], 'let_products', True):
        from . import lets as _lets
        r = _lets.let('dot', r)
    return r


def _dot(a, b):
    a, b = asarray(a), asarray(b)
    if not isinstance(a, SArr) or not isinstance(b, SArr):
        return a * b
    if a.ndim == 1 and b.ndim == 1:
        if a.shape != b.shape:
            raise ValueError('shapes not aligned')
        return _sumlist(x * y for x, y in zip(a.flat, b.flat))
    if a.ndim == 2 and b.ndim == 1:
        r, c = a.shape
        if c != b.shape[0]:
            raise ValueError('shapes not aligned')
        return SArr((r,), [_sumlist(a.flat[i * c + k] * b.flat[k] for k in range(c)) for i in range(r)])
    if a.ndim == 1 and b.ndim == 2:
        r, c = b.shape
        if r != a.shape[0]:
            raise ValueError('shapes not aligned')
        return SArr((c,), [_sumlist(a.flat[k] * b.flat[k * c + j] for k in range(r)) for j in range(c)])
    if a.ndim == 2 and b.ndim == 2:
        r, m = a.shape
        m2, c = b.shape
        if m != m2:
            raise ValueError('shapes not aligned')
        return SArr((r, c), [_sumlist(a.flat[i * m + k] * b.flat[k * c + j] for k in range(m))
                             for i in range(r) for j in range(c)])
    raise OutsideSubset('dot ndim')


def cross(a, b):
    a, b = asarray(a), asarray(b)
    a0, a1, a2 = a.flat
    b0, b1, b2 = b.flat
    return SArr((3,), [_norm(a1 * b2 - a2 * b1), _norm(a2 * b0 - a0 * b2), _norm(a0 * b1 - a1 * b0)])


def sum_(x, axis=None):
    x = asarray(x)
    if not isinstance(x, SArr):
        return x
    if axis is None:
        return _sumlist(x.flat)
    if isinstance(axis, tuple):
        for ax in sorted(axis, reverse=True):
            x = sum_(x, ax)
        return x
    shp = x.shape
    axis = axis % len(shp)
    out_shape = shp[:axis] + shp[axis + 1:]
    res = []
    for idx in itertools.product(*[range(n) for n in out_shape]):
        acc = []
        for k in range(shp[axis]):
            full = idx[:axis] + (k,) + idx[axis:]
            acc.append(x[full])
        res.append(_sumlist(acc))
    if out_shape == ():
        return res[0]
    return SArr(out_shape, res)


def det(m):
    m = asarray(m)
    if m.shape == (2, 2):
        a, b, c, d = m.flat
        return _norm(a * d - b * c)
    if m.shape == (3, 3):
        a, b, c, d, e, f, g, h, i = m.flat
        return _norm(a * (e * i - f * h) - b * (d * i - f * g) + c * (d * h - e * g))
    raise OutsideSubset('det shape %s' % (m.shape,))


def adj(m):
    a, b, c, d, e, f, g, h, i = m.flat
    return SArr((3, 3), [_norm(x) for x in (e * i - f * h, c * h - b * i, b * f - c * e,
                                            f * g - d * i, a * i - c * g, c * d - a * f,
                                            d * h - e * g, b * g - a * h, a * e - b * d)])


def inv(m):
    """assumed contract: inv(M) = adj(M)/det(M), obligation det(M) != 0"""
    m = asarray(m)
    if m.shape == (2, 2):
        a, b, c, d = m.flat
        dt = det(m)
        return SArr((2, 2), [_div(d, dt), _div(-b, dt), _div(-c, dt), _div(a, dt)])
    if m.shape == (3, 3):
        dt = det(m)
        # triangular matrices keep small entries: adj/det entrywise
        return SArr((3, 3), [_div(x, dt) if not (is_num(x) and x == 0) else 0 for x in adj(m).flat])
    raise OutsideSubset('inv shape %s' % (m.shape,))


def norm(x, axis=None):
    x = asarray(x)
    return T.sqrt(_sumlist(v * v for v in x.flat)) if T.symbolic(x) else \
        math.sqrt(float(_sumlist(v * v for v in x.flat)))


def qr(m):
    """assumed contract of numpy.linalg.qr on 3x3: some (Q, Rm) with Q^T Q = I, Rm upper
    triangular, Q Rm = M; nothing is assumed about signs"""
    import numpy as _np
    import z3
    c = ctx()
    m = asarray(m)
    if m.shape != (3, 3):
        raise OutsideSubset('qr shape')
    tag = c.fresh('qr')
    zm = [lift(v).z for v in m.flat]

    def native(env):
        key = ('qrnum', tag)
        if key not in env:
            M = _np.array([T.numeval(z, env) for z in zm], float).reshape(3, 3)
            env[key] = _np.linalg.qr(M)
        return env[key]
    Q = SArr((3, 3), [T.real('%s_Q%d%d' % (tag, i, j), numdef=lambda env, i=i, j=j: native(env)[0][i, j])
                      for i in range(3) for j in range(3)])
    Rm = SArr((3, 3), [T.real('%s_R%d%d' % (tag, i, j), numdef=lambda env, i=i, j=j: native(env)[1][i, j])
                       if j >= i else 0 for i in range(3) for j in range(3)])
    QtQ = dot(transpose(Q), Q)
    QR = dot(Q, Rm)
    for i in range(3):
        for j in range(3):
            if j >= i:
                c.assume(T.Eq(QtQ[i, j], 1 if i == j else 0))
            n0 = len(c.hyps)
            c.assume(T.Eq(QR[i, j], m[i, j]))
            # read as a definition of M_ij (a symbol) in terms of Q and R: keeps the hypotheses triangular
            mij = m[i, j]
            if isinstance(mij, R) and len(c.hyps) == n0 + 1 and T.z3.is_const(mij.n) and mij.d is None:
                c.hyp_main[c.hyps[-1].get_id()] = str(mij.n)
    c.notes.append('assumed contract: numpy.linalg.qr')
    return (Q, Rm)


def clip(x, lo, hi):
    def one(v, l, h):
        if T.symbolic(v, l, h):
            return T.ite(lift(v) < l, l, T.ite(lift(v) > h, h, v))
        return _norm(min(max(v, l), h))
    if isinstance(x, (list, tuple)):
        x = array(x)
    if isinstance(x, SArr):
        los = lo if isinstance(lo, SArr) else (array(lo) if isinstance(lo, (list, tuple)) else None)
        his = hi if isinstance(hi, SArr) else (array(hi) if isinstance(hi, (list, tuple)) else None)
        xs = x
        if los is not None:
            xs, los = broadcast(xs, los)
        if his is not None:
            xs, his = broadcast(xs, his)
            if los is not None:
                xs, los = broadcast(xs, los)
        return SArr(xs.shape, [one(v, lo if los is None else los.flat[i], hi if his is None else his.flat[i])
                               for i, v in enumerate(xs.flat)])
    return one(x, lo, hi)


def _minmax(a, b, want_min):
    def one(u, v):
        if T.symbolic(u, v):
            c = lift(u) < v
            return T.ite(c, u, v) if want_min else T.ite(c, v, u)
        return _norm(min(u, v) if want_min else max(u, v))
    if isinstance(a, (list, tuple)):
        a = array(a)
    if isinstance(b, (list, tuple)):
        b = array(b)
    if isinstance(a, SArr) or isinstance(b, SArr):
        if not isinstance(a, SArr):
            a = SArr((), [a])
        if not isinstance(b, SArr):
            b = SArr((), [b])
        a, b = broadcast(a, b)
        return SArr(a.shape, [one(u, v) for u, v in zip(a.flat, b.flat)])
    return one(a, b)


def round_(x, decimals=0):
    """numpy.round(x, d) = floor(x*10^d + 1/2) / 10^d  (round-half-even differs only on exact ties)"""
    import z3
    if isinstance(x, SArr):
        return SArr(x.shape, [round_(v, decimals) for v in x.flat])
    if not isinstance(x, (R, I)):
        return _norm(round(T.to_frac(x) * 10 ** decimals) / Fraction(10 ** decimals))
    sc = 10 ** int(decimals)
    y = lift(x) * sc + Fraction(1, 2)
    return R(z3.ToReal(z3.ToInt(y.z))) / sc


def minimum(a, b):
    return _minmax(a, b, True)


def maximum(a, b):
    return _minmax(a, b, False)


def max_(x):
    x = asarray(x)
    vs = x.flat if isinstance(x, SArr) else [x]
    m = vs[0]
    for v in vs[1:]:
        if T.symbolic(m, v):
            m = T.ite(lift(v) > m, v, m)
        else:
            m = max(m, v)
    return m


def mod(x, y):
    if isinstance(x, SArr):
        return SArr(x.shape, [mod(v, y) for v in x.flat])
    if isinstance(x, I):
        return x % y
    if isinstance(x, R):
        raise OutsideSubset('real mod')
    return _norm(T.to_frac(x) % T.to_frac(y))


def _ufunc(f):
    def g(x, *a):
        if isinstance(x, (list, tuple)):
            x = array(x)
        if isinstance(x, SArr):
            return SArr(x.shape, [_norm(f(v, *a)) for v in x.flat])
        return _norm(f(x, *a))
    return g


def _cos(x):
    if isinstance(x, Fraction):
        x = float(x)
    return T.cos(x)


def _sin(x):
    if isinstance(x, Fraction):
        x = float(x)
    return T.sin(x)


def _sqrt(x):
    if isinstance(x, (int, Fraction)):
        q = Fraction(x)
        if q < 0:
            raise OutsideSubset('sqrt of negative constant')
        import math as _m
        n, d = q.numerator, q.denominator
        rn, rd = _m.isqrt(n), _m.isqrt(d)
        if rn * rn == n and rd * rd == d:
            return _norm(Fraction(rn, rd))
        return T._sqrt_of_rational(q)
    return T.sqrt(x)


def _float_of_const(f):
    def g(x, *a):
        if isinstance(x, (int, Fraction)) and not T.symbolic(*a):
            raise OutsideSubset('%s of exact constant' % f.__name__)
        return f(x, *a)
    return g


def allclose(a, b, rtol=1e-5, atol=1e-8):
    """assumed contract: all |a-b| <= atol + rtol*|b|"""
    a, b = asarray(a), asarray(b)
    if not isinstance(a, SArr):
        a = SArr((), [a])
    if not isinstance(b, SArr):
        b = SArr((), [b])
    a, b = broadcast(a, b)
    conds = []
    for x, y in zip(a.flat, b.flat):
        d = x - y
        lim = T.to_frac(atol) + T.to_frac(rtol) * abs(y)
        conds.append(abs(d) <= lim if T.symbolic(d, lim) else abs(T.to_frac(d)) <= lim)
    return T.And(*conds)


def solve(a, b):
    """numpy.linalg.solve(A, b) = inv(A).b (obligation det(A) != 0 through inv)"""
    return dot(inv(a), asarray(b))


def isclose(a, b, rtol=1e-5, atol=1e-8):
    """scalar numpy.isclose: |a-b| <= atol + rtol*|b| (arrays: use allclose)"""
    if isinstance(a, SArr) or isinstance(b, SArr):
        raise OutsideSubset('isclose on arrays')
    return allclose(a, b, rtol=rtol, atol=atol)


def _any(x):
    x = asarray(x)
    vs = x.flat if isinstance(x, SArr) else [x]
    return T.Or(*vs) if any(not isinstance(v, bool) for v in vs) else any(vs)


def _all(x):
    x = asarray(x)
    vs = x.flat if isinstance(x, SArr) else [x]
    return T.And(*vs) if any(not isinstance(v, bool) for v in vs) else all(vs)


def trace(m):
    m = asarray(m)
    if len(m.shape) != 2:
        raise OutsideSubset('trace of a %d-d array' % len(m.shape))
    t = 0
    for i in range(min(m.shape)):
        t = t + m[i, i]
    return t


def outer(a, b):
    a, b = asarray(a), asarray(b)
    return SArr((len(a.flat), len(b.flat)), [_norm(x * y) for x in a.flat for y in b.flat])


def diag(v):
    v = asarray(v)
    if len(v.shape) == 1:
        k = v.shape[0]
        return SArr((k, k), [v.flat[i] if i == j else 0 for i in range(k) for j in range(k)])
    if len(v.shape) == 2:
        return SArr((min(v.shape),), [v[i, i] for i in range(min(v.shape))])
    raise OutsideSubset('diag')


class _Linalg:
    solve = staticmethod(solve)
    inv = staticmethod(inv)
    det = staticmethod(det)
    norm = staticmethod(norm)
    qr = staticmethod(qr)

    def __getattr__(self, name):
        raise OutsideSubset('numpy.linalg.%s is not modelled' % name)


class _Random:
    @staticmethod
    def rand(*shape):
        raise OutsideSubset('n.random.rand')


def _radians(x):
    if isinstance(x, (R, I)):
        return x * T.pi() / 180
    import math
    return math.radians(x)


def _binary(op):
    def g(a, b):
        if isinstance(a, (list, tuple)):
            a = array(a)
        if isinstance(b, (list, tuple)):
            b = array(b)
        return op(a, b)
    return g


def _ndim(x):
    if isinstance(x, SArr):
        return len(x.shape)
    if isinstance(x, (list, tuple)):
        return len(array(x).shape)
    return 0


def _shape(x):
    if isinstance(x, SArr):
        return tuple(x.shape)
    if isinstance(x, (list, tuple)):
        return tuple(array(x).shape)
    return ()


def _full_like(x, v, dtype=None):
    """values only: the model carries no dtypes (an integer-typed template would truncate v in numpy -- argument
    kinds are the business of the native checks)"""
    if isinstance(x, (list, tuple)):
        x = array(x)
    if isinstance(x, SArr):
        return SArr(x.shape, [v for _ in x.flat])
    return v


class NumpyModel:
    """stands in for the module object `n` / `np` inside the extracted functions"""
    isclose = staticmethod(isclose)
    any = staticmethod(_any)
    all = staticmethod(_all)
    trace = staticmethod(trace)
    outer = staticmethod(outer)
    diag = staticmethod(diag)
    identity = staticmethod(lambda k: eye(k))
    multiply = staticmethod(_binary(lambda a, b: a * b))
    add = staticmethod(_binary(lambda a, b: a + b))
    subtract = staticmethod(_binary(lambda a, b: a - b))
    divide = staticmethod(_binary(lambda a, b: a / b))
    true_divide = staticmethod(_binary(lambda a, b: a / b))
    negative = staticmethod(_ufunc(lambda v: -v))
    square = staticmethod(_ufunc(lambda v: v * v))
    radians = staticmethod(_ufunc(_radians))
    deg2rad = staticmethod(_ufunc(_radians))
    rad2deg = staticmethod(_ufunc(T.degrees))
    absolute = staticmethod(_ufunc(abs))
    fabs = staticmethod(_ufunc(abs))
    ndim = staticmethod(_ndim)
    shape = staticmethod(_shape)
    full_like = staticmethod(_full_like)
    zeros_like = staticmethod(lambda x, dtype=None: _full_like(x, 0))
    ones_like = staticmethod(lambda x, dtype=None: _full_like(x, 1))
    isscalar = staticmethod(lambda x: not isinstance(x, (SArr, list, tuple)))
    float64 = staticmethod(lambda x: x)
    pi = property(lambda self: T.pi())
    linalg = _Linalg()
    random = _Random()
    array = staticmethod(array)
    asarray = staticmethod(asarray)
    ascontiguousarray = staticmethod(ascontiguousarray)
    zeros = staticmethod(zeros)
    empty = staticmethod(empty)
    eye = staticmethod(eye)
    arange = staticmethod(arange)
    transpose = staticmethod(transpose)
    dot = staticmethod(dot)
    cross = staticmethod(cross)
    sum = staticmethod(sum_)
    clip = staticmethod(clip)
    minimum = staticmethod(minimum)
    round = staticmethod(round_)
    around = staticmethod(round_)
    rint = staticmethod(round_)
    maximum = staticmethod(maximum)
    max = staticmethod(max_)
    mod = staticmethod(mod)
    allclose = staticmethod(allclose)
    cos = staticmethod(_ufunc(_cos))
    sin = staticmethod(_ufunc(_sin))
    sqrt = staticmethod(_ufunc(_sqrt))
    arccos = staticmethod(_ufunc(_float_of_const(T.arccos)))
    arcsin = staticmethod(_ufunc(_float_of_const(T.arcsin)))
    arctan = staticmethod(_ufunc(_float_of_const(T.arctan)))
    arctan2 = staticmethod(_float_of_const(T.arctan2))
    exp = staticmethod(_ufunc(T.exp))
    abs = staticmethod(_ufunc(abs))
    degrees = staticmethod(_ufunc(T.degrees))

    def __getattr__(self, name):
        raise OutsideSubset('numpy.%s is not modelled' % name)


NP = NumpyModel()


# ---------------------------------------------------------------------------
# images of symbolic shape as index functions (C11)

class SImage:
    """a 2-D array of symbolic shape (H, W): `src(i, j)` is the index in the ORIGINAL image whose
    value is stored at [i, j].  transpose / fliplr / flipud are affine index maps."""

    def __init__(self, shape, src):
        self.shape = tuple(shape)
        self.src = src
        self.ndim = 2

    @property
    def T(self):
        return transpose_image(self)


def transpose_image(x):
    h, w = x.shape
    return SImage((w, h), lambda i, j: x.src(j, i))


def fliplr(x):
    if not isinstance(x, SImage):
        raise OutsideSubset('fliplr of a non-image')
    h, w = x.shape
    return SImage((h, w), lambda i, j: x.src(i, w - 1 - j))


def flipud(x):
    if not isinstance(x, SImage):
        raise OutsideSubset('flipud of a non-image')
    h, w = x.shape
    return SImage((h, w), lambda i, j: x.src(h - 1 - i, j))


_transpose_arrays = transpose


def transpose(x):          # noqa: F811  (images and arrays)
    if isinstance(x, SImage):
        return transpose_image(x)
    return _transpose_arrays(x)


NumpyModel.transpose = staticmethod(transpose)
NumpyModel.fliplr = staticmethod(fliplr)
NumpyModel.flipud = staticmethod(flipud)
