"""pyvc.discharge -- decide one obligation: simplify | certificate+z3 | z3 | cvc5."""
import os
import subprocess
import tempfile
import time

import z3

from . import cert
from . import terms as T

SMT_TIMEOUT_MS = int(os.environ.get('PYVC_SMT_TIMEOUT_MS', '10000'))
CERT_TIMEOUT_S = int(os.environ.get('PYVC_CERT_TIMEOUT_S', '30'))
CVC5 = '/usr/bin/cvc5'


def _solver(ob, negate=True, extra=()):
    s = z3.Solver()
    s.set('timeout', SMT_TIMEOUT_MS)
    for f in ob.facts:
        s.add(f)
    for f in ob.pc:
        s.add(f)
    for f in extra:
        s.add(f)
    s.add(z3.Not(ob.goal) if negate else ob.goal)
    return s


def _cvc5(s, timeout_ms):
    txt = '(set-logic ALL)\n' + s.to_smt2()
    with tempfile.NamedTemporaryFile('w', suffix='.smt2', delete=False, dir='/dev/shm') as f:
        f.write(txt)
        p = f.name
    try:
        r = subprocess.run([CVC5, '--tlimit=%d' % timeout_ms, p], capture_output=True, text=True,
                           timeout=timeout_ms / 1000 + 10)
        out = r.stdout.strip().splitlines()
        return out[0] if out else 'unknown'
    except Exception:
        return 'unknown'
    finally:
        os.unlink(p)


def _sign_match(ob):
    from . import signs
    op, a, b = ob.rel
    t = T.lift(a) - b if not (T.is_num(b) and b == 0) else T.lift(a)
    return signs.prove_sign(ob.ctx, ob.facts, ob.pc, ob.hyps, t, op, ob.sign_hints, ob.signfacts)


def model_env(m):
    env = {}
    for d in m.decls():
        if d.arity() == 0:
            v = m[d]
            try:
                if z3.is_int_value(v):
                    env[d.name()] = v.as_long()
                elif z3.is_rational_value(v):
                    env[d.name()] = v.numerator_as_long() / v.denominator_as_long()
                elif z3.is_algebraic_value(v):
                    env[d.name()] = float(v.approx(20).as_fraction())
            except Exception:
                pass
    return env


def discharge(ob, allow_cvc5=True, scale=1):
    """returns dict(status = discharged | refuted | unknown, backend, seconds, detail, model)"""
    t0 = time.time()
    res = {'name': ob.name, 'kind': ob.kind, 'status': 'unknown', 'backend': '', 'detail': '', 'model': None}
    try:
        g = z3.simplify(ob.goal)
        if z3.is_true(g):
            res.update(status='discharged', backend='z3-simplify')
            return _fin(res, t0)
        for f in ob.facts + ob.pc:
            if z3.eq(f, ob.goal):
                res.update(status='discharged', backend='assumption', detail='syntactically a known fact')
                return _fin(res, t0)
        # 0a. sign obligations: match against a closed form named by the contract
        if ob.rel is not None and (ob.sign_hints or ob.signfacts) and ob.kind == 'smt':
            r = _sign_match(ob)
            if r is not None:
                res.update(status='discharged', backend='certificate+z3', detail=r)
                return _fin(res, t0)
        # 0b. relevance-filtered SMT: only the facts that mention a symbol of the goal
        gs = set(cert.symbols_of(ob.goal))
        rel = [f for f in ob.facts + ob.pc if gs & set(cert.symbols_of(f))]
        if len(rel) < len(ob.facts) + len(ob.pc):
            sr = z3.Solver()
            sr.set('timeout', 3000 * scale)
            for f in rel:
                sr.add(f)
            sr.add(z3.Not(ob.goal))
            if sr.check() == z3.unsat:
                res.update(status='discharged', backend='z3', detail='relevant facts only')
                return _fin(res, t0)
        # 0. a short SMT attempt settles the easy ones
        s0 = _solver(ob)
        s0.set('timeout', 1500 * scale)
        if s0.check() == z3.unsat:
            res.update(status='discharged', backend='z3', detail='')
            return _fin(res, t0)
        # 1. equalities: certificate
        if ob.eq is not None:
            p = T.eq_poly(*ob.eq)
            if p is not None:
                hyps = list(ob.hyps)
                r = cert.prove_eq(p, hyps, ob.ctx.order, timeout=CERT_TIMEOUT_S * scale, facts=ob.facts + ob.pc, hyp_main=ob.ctx.hyp_main)
                res['backend'] = r['backend']
                res['detail'] = r.get('detail', '')
                if r['status'] == 'discharged':
                    res['status'] = 'discharged'
                    res['n_cofactors'] = r.get('n_cofactors')
                    return _fin(res, t0)
                if r['status'] == 'not-in-ideal':
                    # not a verdict: the goal may still follow from the inequalities; go on to SMT
                    res['detail'] = 'certificate search: ' + r['detail']
        # 2. smt
        s = _solver(ob)
        if scale != 1:
            s.set('timeout', SMT_TIMEOUT_MS * scale)
        r = s.check()
        if r == z3.unsat:
            res.update(status='discharged', backend='z3', detail='')
            return _fin(res, t0)
        if r == z3.sat:
            m = model_env(s.model())
            ok = genuine_model(ob, m)
            if ok:
                res.update(status='refuted', backend='z3', detail='sat', model=ok)
                return _fin(res, t0)
            res['detail'] = (res['detail'] + '; z3 model is not a real counterexample (symbols of the '
                             'trig/sqrt theory are under-axiomatised): ignored').strip('; ')
        if allow_cvc5:
            r5 = _cvc5(s, SMT_TIMEOUT_MS * scale)
            if r5 == 'unsat':
                res.update(status='discharged', backend='cvc5', detail='z3 unknown')
                return _fin(res, t0)

        res['backend'] = (res['backend'] + '+z3+cvc5').strip('+')
        res['detail'] = (res['detail'] + '; smt: unknown').strip('; ')
    except Exception as e:          # a crash of the checker is never a verdict
        import traceback
        res.update(status='error', detail='%r\n%s' % (e, traceback.format_exc()))
    return _fin(res, t0)


def genuine_model(ob, m):
    """re-evaluate a solver model with the TRUE values of the dependent symbols (atoms, sqrt,
    arccos ... computed from the model's input values); return the completed env if the path
    condition holds and the goal is false there, else None"""
    c = ob.ctx
    env0 = {k: v for k, v in m.items() if k not in c.numdefs}
    try:
        for nm in c.order:
            if nm not in env0 and nm not in c.numdefs:
                env0[nm] = 0          # the solver left an input unconstrained: any value will do
        env = T.complete_env(c, env0)
        for nm in c.order:
            if nm not in env:
                return None
        if not all(T.numeval(f, env) for f in ob.pc):
            return None
        if not all(T.numeval(f, env) for f in ob.facts):
            return None
        if ob.eq is not None:
            l, r = T.numeval(ob.eq[0].z, env), T.numeval(ob.eq[1].z, env)
            bad = abs(l - r) > 1e-9 * (1 + abs(l) + abs(r))
        else:
            bad = not T.numeval(ob.goal, env)
        return {k: v for k, v in env.items() if isinstance(k, str)} if bad else None
    except Exception:
        return None


def _fin(res, t0):
    res['seconds'] = round(time.time() - t0, 4)
    return res
