"""pyvc.pool -- a fork pool that survives worker crashes (a solver segfault must not hang the run).

run(n_tasks, fn, procs, task_timeout) -> list of results; fn(i) runs in a forked child that inherits the
parent's memory (z3 objects included).  A task whose worker dies, or that exceeds task_timeout, gets the
result {'crashed': reason}."""
import multiprocessing as mp
import os
import queue
import time


def _worker(fn, tasks, results, current, slot):
    while True:
        try:
            i = tasks.get_nowait()
        except queue.Empty:
            return
        current[slot] = i
        t0 = time.time()
        try:
            r = fn(i)
        except BaseException as e:          # noqa
            r = {'crashed': 'exception in worker: %r' % (e,)}
        results.put((i, r))
        current[slot] = -1


def run(n_tasks, fn, procs=16, task_timeout=600):
    ctx = mp.get_context('fork')
    tasks = ctx.Queue()
    for i in range(n_tasks):
        tasks.put(i)
    results = ctx.Queue()
    procs = max(1, min(procs, n_tasks))
    current = ctx.Array('i', [-1] * procs)
    started = [0.0] * procs
    last = [-1] * procs
    workers = []

    def spawn(slot):
        p = ctx.Process(target=_worker, args=(fn, tasks, results, current, slot), daemon=True)
        p.start()
        return p
    time.sleep(0.05)          # let the queue feeder thread flush
    for s in range(procs):
        workers.append(spawn(s))
    out = {}
    while len(out) < n_tasks:
        try:
            i, r = results.get(timeout=0.5)
            out[i] = r
            continue
        except queue.Empty:
            pass
        now = time.time()
        for s, p in enumerate(workers):
            cur = current[s]
            if cur != last[s]:
                last[s] = cur
                started[s] = now
            if not p.is_alive():
                # drain anything it managed to send
                try:
                    while True:
                        i, r = results.get_nowait()
                        out[i] = r
                except queue.Empty:
                    pass
                if cur >= 0 and cur not in out:
                    out[cur] = {'crashed': 'worker process died (exit code %s)' % p.exitcode}
                current[s] = -1
                if len(out) < n_tasks and not tasks.empty():
                    workers[s] = spawn(s)
            elif cur >= 0 and now - started[s] > task_timeout:
                p.terminate()
                p.join(2)
                if cur not in out:
                    out[cur] = {'crashed': 'task exceeded %ds and was stopped' % task_timeout}
                current[s] = -1
                if not tasks.empty():
                    workers[s] = spawn(s)
        if all(not p.is_alive() for p in workers) and tasks.empty():
            try:
                while True:
                    i, r = results.get(timeout=0.2)
                    out[i] = r
            except queue.Empty:
                pass
            for i in range(n_tasks):
                out.setdefault(i, {'crashed': 'lost'})
            break
    for p in workers:
        if p.is_alive():
            p.terminate()
    return [out[i] for i in range(n_tasks)]
