"""pyvc.signs -- prove  t op 0  (op in '>', '>=', '!=') by matching t, modulo the hypotheses,
against a term whose sign is known: a closed form named by the contract (its sign is then a
small SMT query) or a branch condition already decided on this path."""
import z3

from . import cert
from . import terms as T

STRONGER = {'>': ('>',), '>=': ('>', '>='), '!=': ('>', '!=')}


def known_signs(signfacts):
    out = []
    for (op, a, b), truth in signfacts:
        u = T.lift(a) - b
        if truth:
            out.append((u, op))
        elif op == '>':
            out.append((-u, '>='))
        elif op == '>=':
            out.append((-u, '>'))
    return out


def _smt_sign(facts, pc, q, op, timeout_ms=4000):
    s = z3.Solver()
    s.set('timeout', timeout_ms)
    for f in facts:
        s.add(f)
    for f in pc:
        s.add(f)
    s.add({'>': q.z <= 0, '>=': q.z < 0, '!=': q.z == 0}[op])
    return s.check() == z3.unsat


def prove_sign(c, facts, pc, hyps, t, op, hints, signfacts, cert_timeout=30):
    """returns a justification string or None; the whole search is time-boxed"""
    import time as _time
    t_end = _time.time() + 3 * cert_timeout
    t = T.lift(t)
    if _smt_sign(facts, pc, t, op, 1500):
        return 'z3'
    saved0 = T._CTX[0]
    T.set_ctx(c)
    try:
        hv = [T.eval_hint(c, q) for q in hints]
    finally:
        T.set_ctx(saved0)
    hv = [q for q in hv if q is not None]
    cands = [(q, None) for q in hv] + [(-q, None) for q in hv]
    cands = known_signs(signfacts) + cands
    saved = T._CTX[0]
    for q, qop in cands:
        if _time.time() > t_end:
            break
        if qop is not None and qop not in STRONGER[op]:
            continue
        p = T.eq_poly(t, q)
        if p is None:
            continue
        if q.d is not None and not cert.nonzero_from_facts(q.d, list(facts) + list(pc), 2000):
            continue          # closed forms are only usable where their denominators are non-zero
        T.set_ctx(c)
        try:
            if T._quick_differs(c, p):
                continue
        finally:
            T.set_ctx(saved)
        r = cert.prove_eq(p, list(hyps), c.order, timeout=int(max(4, min(cert_timeout, t_end - _time.time()))), facts=list(facts) + list(pc), hyp_main=getattr(c, 'hyp_main', None))
        if r['status'] != 'discharged':
            continue
        if qop is not None:
            return 'equal (certificate) to a branch condition term of known sign'
        if _smt_sign(facts, pc, q, op):
            return 'equal (certificate) to a closed form named by the contract whose sign z3 proves'
    return None
