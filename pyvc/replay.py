"""re-run the native witness of a replay file on the real function and re-evaluate the clause"""
import importlib
import sys


def replay(rec):
    from pyvc import engine as E, runner as Rn, terms as T
    import contracts  # noqa
    contracts.load_all()
    wit = rec.get('native_witness')
    unit = rec.get('unit', '')
    if not wit or '.' not in unit:
        print('no native witness recorded (obligation refuted without a failing input)')
        return 0
    module, name = unit.split('.', 1)
    k = E.REGISTRY.get((module, name))
    if k is None:
        print('no contract for', unit)
        return 3
    vals = wit['inputs']
    f = Rn.FuncUnit(module, name).native()
    res = f(*Rn.native_args(k, vals))
    failed = False
    for nm, cond in k.ensures(*(list(vals) + [res])):
        for c in T.flatten_conj(cond):
            ok = bool(c)
            if not ok:
                failed = True
                print('clause %s FAILS on the real function: %r' % (nm, c))
    print('REPRODUCED' if failed else 'not reproduced')
    return 1 if failed else 0
