"""pyvc.engine -- contracts, symbolic execution of the real function bodies, obligations.

The real function text is extracted from $XFAB_SRC with `ast` (pyvc.source) and executed by
CPython itself over symbolic values: numpy/math are replaced by the models of pyvc.npmodel,
every callee that has a contract is replaced by a stub that *asserts the callee's
precondition and assumes its postcondition* (the callee body is never inlined), and symbolic
branch conditions are enumerated by decision replay (one run per feasible path).
"""
import math
import os
import random
import time
import traceback
from fractions import Fraction

import copy
import z3

from . import terms as T
from . import npmodel as NPM
from .terms import R, I, B, Ctx, PathEnd, OutsideSubset, set_ctx, ctx
from .source import Source
from . import lets as _lets

# ---------------------------------------------------------------------------
# parameter types: how to make a symbolic argument, how to sample a numeric one, and how a
# numeric sample fixes the values of the symbols


class PType:
    def sym(self, name):
        raise NotImplementedError

    def sample(self, rng):
        raise NotImplementedError

    def env(self, name, value, env):
        raise NotImplementedError

    def native(self, value):
        """convert a sample to what the real function expects"""
        return value


class Real(PType):
    def __init__(self, lo=-10.0, hi=10.0, special=()):
        self.lo, self.hi, self.special = lo, hi, special

    def sym(self, name):
        return T.real(name)

    def sample(self, rng):
        if self.special and rng.random() < 0.15:
            return float(rng.choice(self.special))
        return rng.uniform(self.lo, self.hi)

    def env(self, name, value, env):
        env[name] = float(value)


class Angle(PType):
    """an angle argument; base (q,k): cos/sin atoms are formed for q*pi^k * symbol"""

    def __init__(self, lo=-math.pi, hi=math.pi, base=(1, 0), special=()):
        self.lo, self.hi, self.base, self.special = lo, hi, (Fraction(base[0]), base[1]), special

    def sym(self, name):
        return T.angle(name, base=self.base)

    def sample(self, rng):
        if self.special and rng.random() < 0.15:
            return float(rng.choice(self.special))
        return rng.uniform(self.lo, self.hi)

    def env(self, name, value, env):
        env[name] = float(value)


class Const(PType):
    def __init__(self, value):
        self.value = value

    def sym(self, name):
        return self.value

    def sample(self, rng):
        return self.value

    def env(self, name, value, env):
        pass


class Int(PType):
    def __init__(self, lo=-8, hi=8):
        self.lo, self.hi = lo, hi

    def sym(self, name):
        return T.integer(name)

    def sample(self, rng):
        return rng.randint(self.lo, self.hi)

    def env(self, name, value, env):
        env[name] = int(value)


class Vec(PType):
    def __init__(self, n, elem=None, as_list=False):
        self.n, self.elem, self.as_list = n, elem or Real(), as_list

    def sym(self, name):
        items = [self.elem.sym('%s_%d' % (name, i)) for i in range(self.n)]
        return items if self.as_list else NPM.SArr((self.n,), items)

    def sample(self, rng):
        return [self.elem.sample(rng) for _ in range(self.n)]

    def env(self, name, value, env):
        for i, v in enumerate(value):
            self.elem.env('%s_%d' % (name, i), v, env)

    def native(self, value):
        import numpy as np
        return list(value) if self.as_list else np.array(value)


class Mat(PType):
    def __init__(self, r=3, c=3, elem=None, sampler=None):
        self.r, self.c, self.elem, self.sampler = r, c, elem or Real(-2, 2), sampler

    def sym(self, name):
        return NPM.SArr((self.r, self.c), [self.elem.sym('%s_%d%d' % (name, i, j))
                                           for i in range(self.r) for j in range(self.c)])

    def sample(self, rng):
        if self.sampler:
            return self.sampler(rng)
        return [[self.elem.sample(rng) for _ in range(self.c)] for _ in range(self.r)]

    def env(self, name, value, env):
        for i in range(self.r):
            for j in range(self.c):
                env['%s_%d%d' % (name, i, j)] = float(value[i][j])

    def native(self, value):
        import numpy as np
        return np.array(value, float)


def _axis_angle(axis, ang):
    x, y, z = axis
    nrm = math.sqrt(x * x + y * y + z * z)
    x, y, z = x / nrm, y / nrm, z / nrm
    c, s, C = math.cos(ang), math.sin(ang), 1 - math.cos(ang)
    return [[c + x * x * C, x * y * C - z * s, x * z * C + y * s],
            [y * x * C + z * s, c + y * y * C, y * z * C - x * s],
            [z * x * C - y * s, z * y * C + x * s, c + z * z * C]]


def random_rotation(rng, specials=True):
    """uniform over SO(3) plus, with probability 0.2, the special cases the properties name: half turns
    (exact and near), axis-aligned rotations, Euler angles at / near gimbal lock"""
    if specials and rng.random() < 0.25:
        kind = rng.randrange(5)
        if kind == 4:
            # small rotations (tilts of a well aligned instrument): a tolerance-based 'is it the identity' shortcut shows here
            return _axis_angle((rng.gauss(0, 1), rng.gauss(0, 1), rng.gauss(0, 1) + 1e-3),
                               rng.choice([-1, 1]) * rng.choice([1e-9, 1e-7, 1e-5, 1e-4, 3e-4, 6e-4, 9e-4, 3e-3, 1e-2]))
        if kind == 0:
            ax = rng.choice([(1, 0, 0), (0, 1, 0), (0, 0, 1), (1, 1, 0), (1, 1, 1), (1, -1, 0), (1, 2, 3)])
            return _axis_angle(ax, math.pi - rng.choice([0.0, 0.0, 1e-9, 1e-7, 1e-5]))
        if kind == 1:
            ax = rng.choice([(1, 0, 0), (0, 1, 0), (0, 0, 1)])
            ang = rng.choice([0.0, math.pi / 2, -math.pi / 2, math.pi, math.pi / 3, 2 * math.pi / 3])
            M = _axis_angle(ax, ang)
            if ang in (0.0, math.pi / 2, -math.pi / 2, math.pi):
                M = [[float(round(x)) for x in row] for row in M]        # exactly integral: may be passed with an integer dtype
                if rng.random() < 0.5:
                    M2 = _axis_angle(rng.choice([(1, 0, 0), (0, 1, 0), (0, 0, 1)]), rng.choice([math.pi / 2, -math.pi / 2, math.pi]))
                    M2 = [[float(round(x)) for x in row] for row in M2]
                    M = [[sum(M[i][k] * M2[k][j] for k in range(3)) for j in range(3)] for i in range(3)]
            return M
        if kind == 2:
            e = rng.choice([0.0, 1e-12, 1e-9, 3e-8, 1e-6, 5e-5, 1e-4, 1e-3])
            PHI = e if rng.random() < 0.5 else math.pi - e
            p1, p2 = rng.uniform(0, 2 * math.pi), rng.uniform(0, 2 * math.pi)
            c1, s1, c2, s2, cP, sP = math.cos(p1), math.sin(p1), math.cos(p2), math.sin(p2), math.cos(PHI), math.sin(PHI)
            return [[c1 * c2 - s1 * s2 * cP, -c1 * s2 - s1 * c2 * cP, s1 * sP],
                    [s1 * c2 + c1 * s2 * cP, -s1 * s2 + c1 * c2 * cP, -c1 * sP],
                    [s2 * sP, c2 * sP, cP]]
        return _axis_angle((rng.gauss(0, 1), rng.gauss(0, 1), rng.gauss(0, 1) + 1e-3), rng.uniform(-math.pi, math.pi))
    # uniform quaternion
    while True:
        q = [rng.gauss(0, 1) for _ in range(4)]
        nq = math.sqrt(sum(x * x for x in q))
        if nq > 1e-6:
            break
    w, x, y, z = [v / nq for v in q]
    return [[1 - 2 * (y * y + z * z), 2 * (x * y - z * w), 2 * (x * z + y * w)],
            [2 * (x * y + z * w), 1 - 2 * (x * x + z * z), 2 * (y * z - x * w)],
            [2 * (x * z - y * w), 2 * (y * z + x * w), 1 - 2 * (x * x + y * y)]]


class Rot(Mat):
    """a 3x3 matrix argument sampled as a proper rotation (is_rotation goes in `requires`)"""

    def __init__(self):
        Mat.__init__(self, 3, 3, Real(-1, 1), random_rotation)


class UnitVec3(Vec):
    """a 3-vector sampled on the unit sphere (|v|^2 = 1 goes in `requires`)"""

    def __init__(self):
        Vec.__init__(self, 3, Real(-1, 1))

    def sample(self, rng):
        while True:
            v = [rng.gauss(0, 1) for _ in range(3)]
            n = math.sqrt(sum(x * x for x in v))
            if n > 1e-3:
                if rng.random() < 0.1:
                    v[rng.randrange(3)] = 0.0
                    n = math.sqrt(sum(x * x for x in v))
                    if n < 1e-3:
                        continue
                return [x / n for x in v]


class Cell(PType):
    """[a, b, c, alpha, beta, gamma], angles in degrees"""

    def __init__(self, as_list=True):
        self.as_list = as_list

    def sym(self, name):
        ls = [T.real('%s_%s' % (name, k)) for k in 'abc']
        an = [T.angle('%s_%s' % (name, k), base=(Fraction(1, 180), 1)) for k in ('al', 'be', 'ga')]
        return ls + an

    def sample(self, rng):
        while True:
            c = [rng.uniform(2, 20) for _ in range(3)] + [rng.uniform(40, 140) for _ in range(3)]
            if rng.random() < 0.2:
                c[3 + rng.randrange(3)] = 90.0
            if rng.random() < 0.25:
                # strongly oblique: one very acute or very obtuse angle, the others near 90
                c[3:] = [rng.uniform(80, 100) for _ in range(3)]
                c[3 + rng.randrange(3)] = rng.choice([rng.uniform(9, 30), rng.uniform(150, 171)])
            ca, cb, cg = [math.cos(math.radians(x)) for x in c[3:]]
            if 1 - ca * ca - cb * cb - cg * cg + 2 * ca * cb * cg >= 0.02:
                return c

    def env(self, name, value, env):
        for k, v in zip(('a', 'b', 'c', 'al', 'be', 'ga'), value):
            env['%s_%s' % (name, k)] = float(value[('a', 'b', 'c', 'al', 'be', 'ga').index(k)])

    def native(self, value):
        return list(value)


# ---------------------------------------------------------------------------
# contracts

REGISTRY = {}        # (module, function) -> Contract instance


class Contract:
    """Sidecar contract of one real function.

    signature : list of (argname, PType)
    requires(*args)          -> iterable of (clause name, condition)
    ensures(*args, result)   -> iterable of (clause name, condition)   [normal return]
    raises(*args)            -> iterable of (clause name, exception class, condition) meaning:
                                the call raises that exception  <=>  condition
    result_spec(*args)       -> optional functional spec: at call sites the result IS this term
    fresh_result(prefix, *args) -> optional: build a fresh symbolic result for call sites
    """
    module = None
    name = None
    signature = ()
    pure = True
    convert_ifs = False
    max_paths = 400

    def __init__(self, module):
        self.module = module

    def K(self):
        """the 2*pi convention factor of the module"""
        return 2 * T.pi() if self.module == 'tools' else 1

    def Knum(self):
        return 2 * math.pi if self.module == 'tools' else 1.0

    def requires(self, *args):
        return ()

    def ensures(self, *args):
        return ()

    def raises(self, *args):
        return ()

    result_spec = None
    fresh_result = None

    def actuals(self, *args):
        """actual arguments of the real function from the (possibly ghost) contract parameters"""
        return list(args)

    def sign_hints(self, *args):
        """closed forms q with an obvious sign: a sign obligation t >= 0 / t > 0 / t != 0 may be
        discharged by certifying t == q (modulo the hypotheses) and then proving the sign of q"""
        return ()

    def lemmas(self, *args):
        return ()

    def sqrt_hints(self, *args):
        """closed forms that square roots met during execution may resolve to (each use is certified)"""
        return ()

    def qualname(self):
        return '%s.%s' % (self.module, getattr(self, 'key', None) or self.name)


def register(*modules):
    def deco(cls):
        for m in modules:
            REGISTRY[(m, getattr(cls, 'key', None) or cls.name)] = cls(m)
        return cls
    return deco


# ---------------------------------------------------------------------------
# model namespace for the extracted functions

class _NullLogger:
    def debug(self, *a, **k):
        pass
    info = warning = error = debug


class _ChecksState:
    """CHECKS as seen by the extracted code; `activated` is a run parameter"""

    def __init__(self, activated):
        self.activated = activated


def model_float(x, *a):
    if isinstance(x, (R, I)):
        return T.lift(x)
    return float(x)


def model_abs(x):
    return abs(x)


def model_len(x):
    return len(x)


def model_isinstance(x, t):
    return isinstance(x, t)


class CallStub:
    """stands for a callee that has a contract: assert pre, assume post, never run the body"""

    def __init__(self, engine, contract):
        self.engine, self.contract = engine, contract
        self.__name__ = contract.name

    def __call__(self, *args, **kw):
        k = self.contract
        c = ctx()
        if kw:
            names = [n for n, _ in k.signature]
            args = list(args) + [None] * (len(names) - len(args))
            for key, v in kw.items():
                args[names.index(key)] = v
        site = c.fresh('call_%s' % k.name)
        for nm, cond in k.requires(*args):
            c.oblige('%s.requires.%s' % (site.split('!')[0] + '@' + site.split('!')[1], nm), cond)
        if k.result_spec is not None:
            res = k.result_spec(*args)
        elif k.fresh_result is not None:
            res = k.fresh_result(site, *args)
        else:
            raise OutsideSubset('contract of %s gives no result for call sites' % k.name)
        explicit = k.result_spec is not None
        for nm, cond in k.ensures(*(list(args) + [res])):
            if nm.startswith('~'):
                continue
            # for a functional contract the result IS the spec term: its ensures are consequences
            # (kept as facts for the solvers, not as generators of the ideal)
            c.assume(cond, hyp=not explicit)
        c.notes.append('callee contract used: %s' % k.qualname())
        return res


class Engine:
    def __init__(self, src=None, checks_activated=False):
        self.src = src or Source()
        self.checks_activated = checks_activated

    def namespace(self, module, exclude=()):
        ns = {
            'n': NPM.NP, 'np': NPM.NP, 'degrees': T.degrees,
            'float': model_float, 'logger': _NullLogger(), '__let': _lets.let,
            'CHECKS': _ChecksState(self.checks_activated),
            '__name__': 'xfab.' + module,
        }
        for (m, fn), k in REGISTRY.items():
            if m == module and fn not in exclude and '.' not in fn:
                ns[fn] = CallStub(self, k)
        ns['checks'] = _ModuleNS({fn: CallStub(self, k) for (m, fn), k in REGISTRY.items() if m == 'checks'})
        ns['tools'] = _ModuleNS({fn: CallStub(self, k) for (m, fn), k in REGISTRY.items() if m == 'tools'})
        return ns

    # ------------------------------------------------------------------
    def run(self, contract, extra_ns=None, transform=None):
        """symbolically execute the real function under its contract; yields PathResult"""
        k = contract
        ns = self.namespace(k.module)
        if extra_ns:
            ns.update(extra_ns)
        if transform is None and getattr(k, 'let_abstraction', True):
            transform = _lets.transform
        self.add_helpers(k.module, k.name, ns, transform)
        fn = self.src.compile(k.module, k.name, ns, transform=transform)
        work = [[]]
        results = []
        npaths = 0
        while work:
            dec = work.pop()
            c = Ctx(dec)
            set_ctx(c)
            try:
                self.module_globals(k.module, fn.__globals__)
                args = [pt.sym(nm) for nm, pt in k.signature]
                for nm, cond in k.requires(*args):
                    c.assume(cond)
                c.n_pre_obl = len(c.obligations)
                # lemmas: consequences of the preconditions, each an obligation of its own (proved from the
                # preconditions and the earlier lemmas), then available as a fact to everything that follows
                for nm, cond in k.lemmas(*args):
                    c.oblige('lemma.' + nm, cond)
                    c.assume(cond, hyp=False)
                # proof hints are evaluated speculatively: their divisions assert nothing; ghost square
                # roots they introduce keep their obligations (they are part of this function's obligations)
                c.speculative = True
                try:
                    c.sqrt_hints = list(k.sqrt_hints(*args))
                    c.sign_hints = list(k.sign_hints(*args))
                finally:
                    c.speculative = False
                c.probe_env = self.probe_env(k)
                actual = k.actuals(*args)
                snapshot = [(i, list(a.flat)) for i, a in enumerate(actual) if isinstance(a, NPM.SArr)]
                if hasattr(k, 'extra_ns'):
                    fn.__globals__.update(k.extra_ns(*args))      # per-path stubs built from the symbolic arguments
                try:
                    res = fn(*actual)
                    outcome = ('return', res)
                except PathEnd:
                    work.extend(c.pending)
                    continue
                except OutsideSubset:
                    raise
                except (ValueError, AssertionError, ZeroDivisionError, IndexError, KeyError, TypeError, AttributeError) as e:
                    _model_limitation(e)
                    outcome = ('raise', e)
                work.extend(c.pending)
                # frame condition: array arguments are not modified (unless the contract lists them in `modifies`)
                for i, before in snapshot:
                    if i in getattr(k, 'modifies', ()):
                        continue
                    after = actual[i].flat
                    defs = c.memo.get('letdefs', {})
                    alias = c.memo.get('letalias', {})

                    def _same(x, y):
                        # a let-name stands for the value it abbreviates: no modification
                        for _ in range(8):
                            if (x is y) or (not T.symbolic(x, y) and x == y):
                                return True
                            if not (isinstance(x, (R, I)) and isinstance(y, (R, I))):
                                return False
                            if z3.eq(T.lift(x).z, T.lift(y).z):
                                return True
                            yid = T.lift(y).z.get_id()
                            if any(z3.eq(T.lift(x).z, T.lift(a).z) for a in alias.get(yid, ())):
                                return True
                            if yid not in defs:
                                return False
                            y = defs[yid]
                        return False
                    same = len(after) == len(before) and all(_same(x, y) for x, y in zip(before, after))
                    if not same:
                        c.oblige('frame.argument_%d_not_modified' % i, False)
                results.append(PathResult(c, args, outcome))
                npaths += 1
                if npaths > k.max_paths:
                    raise OutsideSubset('more than %d paths' % k.max_paths)
            finally:
                set_ctx(None)
        return results

    def add_helpers(self, module, name, ns, transform, seen=None):
        """module-level functions that the function refers to and that have no contract are executed
        inline: their real text is compiled into the same namespace (recursively)"""
        import ast as _ast
        seen = set() if seen is None else seen
        seen.add(name)
        try:
            fd = self.src.funcdef(module, name)
        except KeyError:
            return
        funcs = self.src.functions(module)
        for node in _ast.walk(fd):
            if isinstance(node, _ast.Name) and isinstance(node.ctx, _ast.Load) and node.id in funcs \
                    and node.id not in ns and node.id not in seen:
                self.add_helpers(module, node.id, ns, transform, seen)
                ns[node.id] = self.src.compile(module, node.id, ns, transform=transform)
                self.inlined = getattr(self, 'inlined', set()) | {'%s.%s' % (module, node.id)}

    def module_globals(self, module, ns):
        """module-level assignments `NAME = <expression>` (constants, tables, empty caches) that the namespace lacks are
        evaluated in the model namespace -- afresh for every path, so that module state never leaks from one symbolic
        path into another (a call is analysed as the first call of a fresh process; what depends on the history of
        calls is the business of the native checks)"""
        import ast as _ast
        made = getattr(self, '_module_globals', {}).get((module, id(ns)))
        if made is None:
            made = []
            for node in self.src.module(module).body:
                if isinstance(node, _ast.Assign) and len(node.targets) == 1 and isinstance(node.targets[0], _ast.Name):
                    nm = node.targets[0].id
                    if nm in ns or nm.startswith('__'):
                        continue
                    code = compile(_ast.fix_missing_locations(_ast.Expression(body=copy.deepcopy(node.value))), self.src.path(module), 'eval')
                    made.append((nm, code))
            self.__dict__.setdefault('_module_globals', {})[(module, id(ns))] = made
        for nm, code in made:
            try:
                ns[nm] = eval(code, ns)
            except OutsideSubset:
                raise
            except Exception:
                ns.pop(nm, None)

    def compile(self, module, name, ns, transform=None):
        self.add_helpers(module, name, ns, transform)
        return self.src.compile(module, name, ns, transform=transform)

    def probe_env(self, k):
        """one random admissible numeric input, used only to reject wrong proof hints quickly"""
        if not hasattr(k, '_probe'):
            import random as _r
            from . import runner as _Rn
            saved = T._CTX[0]
            set_ctx(None)
            try:
                rng = _r.Random(12345)
                k._probe = []
                for _ in range(40):
                    vals = _Rn.sample_inputs(k, rng)
                    if vals is not None:
                        k._probe.append(_Rn.env_of(k, vals))
            finally:
                set_ctx(saved)
        return k._probe

    # ------------------------------------------------------------------
    def obligations(self, contract, **kw):
        """all named obligations of one function: safety conditions met on the way, callee
        preconditions, and the contract's own ensures / raises clauses on every path"""
        k = contract
        paths = self.run(k, **kw)
        obls = []
        raise_specs = None
        for p in paths:
            c = p.ctx
            set_ctx(c)
            try:
                pid = p.pathid()
                for ob in c.obligations[c.n_pre_obl:]:
                    ob.name = '%s.%s[%s]' % (k.qualname(), ob.name, pid)
                    obls.append(ob)
                n0 = len(c.obligations)
                rs = [(r[0], r[1], r[2], r[3] if len(r) > 3 else r[2]) for r in k.raises(*p.args)]
                if p.outcome[0] == 'return':
                    # a normal return must not be a case where the contract demands an exception
                    for nm, exc, cond, may in rs:
                        c.oblige('%s.raises.%s.no_miss[%s]' % (k.qualname(), nm, pid), T.Not(cond))
                    for nm, cond in k.ensures(*(list(p.args) + [p.outcome[1]])):
                        if nm.startswith('~'):
                            c.notes.append('clause checked at run time only (bounded): %s.%s' % (k.qualname(), nm[1:]))
                            continue
                        c.oblige('%s.ensures.%s[%s]' % (k.qualname(), nm, pid), cond)
                        c.assume(cond, hyp=False)      # cut: later clauses may use earlier (proved) ones as facts
                else:
                    e = p.outcome[1]
                    allowed = [(nm, may) for nm, exc, cond, may in rs if isinstance(e, exc)]
                    if not allowed:
                        c.oblige('%s.no_exception[%s] (%s: %s)' % (k.qualname(), pid, type(e).__name__, e),
                                 False)
                    else:
                        c.oblige('%s.raises.%s.justified[%s]' % (k.qualname(), '|'.join(a[0] for a in allowed), pid),
                                 T.Or(*[a[1] for a in allowed]))
                obls.extend(c.obligations[n0:])
            finally:
                set_ctx(None)
        return obls, paths


_PYVC_DIR = os.path.dirname(os.path.abspath(__file__))


def _model_limitation(e):
    """an exception that comes out of the model classes (an operation the symbolic values do not support) says
    nothing about the function under analysis: it is 'outside the subset', never an outcome of the function"""
    if isinstance(e, (TypeError, AttributeError, IndexError, KeyError)) or (isinstance(e, ValueError) and 'broadcast' in str(e)):
        frames = traceback.extract_tb(e.__traceback__)
        inner = frames[-1].filename if frames else ''
        msg = str(e)
        in_model = isinstance(e, (TypeError, AttributeError)) and os.path.abspath(inner).startswith(_PYVC_DIR)
        # an attribute that a stand-in object of the verifier (contracts/*, pyvc/*) does not carry
        owner = type(getattr(e, 'obj', None)).__module__ if isinstance(e, AttributeError) and getattr(e, 'obj', None) is not None else ''
        in_model = in_model or owner.split('.')[0] in ('pyvc', 'contracts', 'checks')
        if in_model or any(t in msg for t in ("'SArr'", "'R'", "'I'", "'B'", "'SImage'", "'ModVal'", "'Conj'")):
            raise OutsideSubset('the symbolic model does not support this operation: %s: %s' % (type(e).__name__, msg))


class _ModuleNS:
    def __init__(self, d):
        self.__dict__.update(d)

    def __getattr__(self, name):
        raise OutsideSubset('callee %s has no contract' % name)


class PathResult:
    def __init__(self, ctx_, args, outcome):
        self.ctx, self.args, self.outcome = ctx_, args, outcome

    def pathid(self):
        s = ''.join('T' if d else 'F' for d in self.ctx.taken)
        return s or '-'


def run_paths(src, module, name, make_args, namespace, max_paths=64, transform=None):
    """enumerate the paths of one real function on arguments built by make_args() (called once per
    path inside a fresh context); returns [(ctx, args, outcome)]"""
    eng = Engine(src)
    eng.add_helpers(module, name, namespace, transform)
    fn = src.compile(module, name, namespace, transform=transform)
    work = [[]]
    out = []
    while work:
        dec = work.pop()
        c = Ctx(dec)
        set_ctx(c)
        try:
            eng.module_globals(module, fn.__globals__)
            args = make_args(c)
            try:
                res = fn(*args)
                outcome = ('return', res)
            except PathEnd:
                work.extend(c.pending)
                continue
            except (ValueError, AssertionError, ZeroDivisionError, IndexError, KeyError, TypeError, AttributeError) as e:
                _model_limitation(e)
                outcome = ('raise', e)
            work.extend(c.pending)
            out.append((c, args, outcome))
            if len(out) > max_paths:
                raise OutsideSubset('more than %d paths' % max_paths)
        finally:
            set_ctx(None)
    return out
