"""pyvc.ground -- closed obligations over literals extracted from the current source, decided by
exact evaluation (integers / Fractions).  Every obligation is named; a false one is `refuted`
with the witness that falsifies it (table, operation pair, ...)."""
import time
import traceback

from .runner import Unit


class GroundUnit(Unit):
    kind = 'ground'

    def __init__(self, name, fn, functions=()):
        self.name, self.fn, self.functions = name, fn, list(functions)

    def label(self):
        return self.name

    def run(self, tier, seed):
        out = {'unit': self.label(), 'functions': self.functions, 'obligations': [], 'notes': [],
               'validation': None, 'native': None}
        t0 = time.time()
        try:
            for item in self.fn(tier, seed):
                name, ok, detail = item[:3]
                wit = item[3] if len(item) > 3 else None
                out['obligations'].append({'name': name, 'kind': 'ground', 'backend': 'ground-eval',
                                           'status': 'discharged' if ok else 'refuted', 'seconds': 0.0,
                                           'detail': detail if not ok else '', 'path': '',
                                           'model': None if ok else (wit if wit is not None else {'detail': detail}),
                                           'ground_witness': None if ok else wit})
        except Exception as e:
            out['obligations'].append({'name': self.label() + '.checker', 'status': 'error', 'kind': 'engine',
                                       'backend': '', 'seconds': 0, 'detail': '%r\n%s' % (e, traceback.format_exc())})
        out['gen_seconds'] = round(time.time() - t0, 3)
        return out
