"""shared machinery for C05/C06: segment tables extracted from the real genhkl_base, symbolic
execution of the real sysabs / sysabs_unique (if-converted), extinction by the group operators"""
import ast
import copy
import math
from functools import reduce

import z3

from . import terms as T
from . import npmodel as NPM
from . import ifconv
from .source import Source


def segm_for(src, module, laue, cell_choice):
    """the segm array genhkl_base selects for (Laue_class, cell_choice): the function is truncated
    mechanically after the selection (at `nref = 0`) and made to return segm"""
    fd = copy.deepcopy(src.funcdef(module, 'genhkl_base'))
    idx = None
    for i, st in enumerate(fd.body):
        if isinstance(st, ast.Assign) and getattr(st.targets[0], 'id', None) == 'nref':
            idx = i
            break
    if idx is None:
        raise KeyError('genhkl_base: statement `nref = 0` not found')
    fd.body = fd.body[:idx] + [ast.Return(value=ast.Name(id='segm', ctx=ast.Load()))]

    class L:
        def debug(self, *a, **k):
            pass
    ns = {'n': NPM.NP, 'np': NPM.NP, 'logger': L()}
    fn = src.compile(module, 'genhkl_base', ns, node=fd)
    segm = fn([5.0, 6.0, 7.0, 91.0, 92.0, 93.0], [0] * 26, 0.0, 1.0, Laue_class=laue, cell_choice=cell_choice)
    if segm is False or segm is None:
        return None
    return segm.tolist()


def compile_sysabs(src, module):
    ns = dict(ifconv.NAMESPACE)
    ns['abs'] = abs
    su = src.compile(module, 'sysabs_unique', ns, transform=ifconv.transform)
    ns2 = dict(ifconv.NAMESPACE)
    ns2['sysabs_unique'] = su
    sa = src.compile(module, 'sysabs', ns2, transform=ifconv.transform)
    return sa


def lcm(a, b):
    return a * b // math.gcd(a, b)


def period(syscond, t24):
    p = 1
    for c in syscond:
        if c:
            p = lcm(p, int(c))
    for t in t24:
        for x in t:
            x = int(x) % 24
            if x:
                p = lcm(p, 24 // math.gcd(24, x))
    return p


def extinct(h, rot, t24):
    """exists (R,t) in G: h.R == h and h.t not an integer   (h a list of 3 symbolic ints)"""
    alts = []
    for R, t in zip(rot, t24):
        if not any(int(x) % 24 for x in t):
            continue
        ht = h[0] * int(t[0]) + h[1] * int(t[1]) + h[2] * int(t[2])
        nz = (ht % 24) != 0
        if nz is False:
            continue
        hR = [h[0] * int(R[0][c]) + h[1] * int(R[1][c]) + h[2] * int(R[2][c]) for c in range(3)]
        fixed = T.And(*[hR[c] == h[c] for c in range(3)])
        if fixed is False:
            continue
        alts.append(T.And(fixed, nz))
    return T.Or(*alts) if alts else False


def extinct_concrete(h, rot, t24):
    for R, t in zip(rot, t24):
        hR = [sum(h[r] * int(R[r][c]) for r in range(3)) for c in range(3)]
        if hR == list(h) and sum(h[r] * int(t[r]) for r in range(3)) % 24 != 0:
            return True
    return False
